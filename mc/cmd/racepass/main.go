// racepass: supporting pass for C19. Runs every scenario's statement threads
// free on goroutines (no controlled scheduler, hence no artificial
// happens-before edges) under the Go race detector, at several GOMAXPROCS
// settings and with 2..16 goroutines. Build with `go build -race`.
package main

import (
	"fmt"
	"os"
	"runtime"
	"strconv"

	"verif/mc/checks"
)

func main() {
	iters := 100
	if len(os.Args) > 1 {
		if v, err := strconv.Atoi(os.Args[1]); err == nil {
			iters = v
		}
	}
	total := 0
	var bad []string
	for _, procs := range []int{2, 4, 16} {
		runtime.GOMAXPROCS(procs)
		for _, copies := range []int{1, 3, 6} {
			bad = append(bad, checks.C19RunFree(iters/3+1, copies)...)
			total += iters/3 + 1
		}
	}
	for i, b := range bad {
		if i < 20 {
			fmt.Println(b)
		}
	}
	fmt.Printf("racepass: %d iterations per scenario, %d interference reports\n", total, len(bad))
	if len(bad) > 0 {
		os.Exit(3)
	}
}
