// kvqlmc: bounded-exhaustive explorer / model checker for c4pt0r/kvql.
//
//	kvqlmc check  <Cxx> --tier quick|thorough   supervisor: shards, evidence, verdict
//	kvqlmc worker <Cxx> ...                     one isolated explorer process
//	kvqlmc replay <path>                        re-judge one recorded case
//	kvqlmc reduce <Cxx>                         (internal) confirm + reduce failures
//	kvqlmc list                                 registered checks
package main

import (
	"encoding/json"
	"fmt"
	"os"
	"strconv"
	"strings"
	"syscall"
	"time"

	_ "verif/mc/checks"
	"verif/mc/core"
	"verif/mc/drv"
	"verif/mc/instr"
	"verif/mc/store"
)

func main() {
	if len(os.Args) < 2 {
		usage()
	}
	switch os.Args[1] {
	case "list":
		for _, id := range core.IDs() {
			fmt.Println(id)
		}
	case "check":
		if len(os.Args) < 3 {
			usage()
		}
		tier := core.Quick
		if t := os.Getenv("VERIF_TIER"); t == "thorough" {
			tier = core.Thorough
		}
		for i := 3; i < len(os.Args); i++ {
			if os.Args[i] == "--tier" && i+1 < len(os.Args) {
				tier = core.Tier(os.Args[i+1])
				i++
			}
		}
		if tier != core.Quick && tier != core.Thorough {
			usage()
		}
		os.Exit(core.RunCheck(os.Args[2], tier))
	case "instr":
		// kvqlmc instr <repo> <outdir>: generate the C19 overlay
		if len(os.Args) < 4 {
			usage()
		}
		res, err := instr.Generate(os.Args[2], os.Args[3])
		if err != nil {
			fmt.Fprintln(os.Stderr, "instr:", err)
			os.Exit(2)
		}
		fmt.Printf("instrumented %d statements (%d write sites) over %d package-level variables: %v; %d heap-write sites\n", res.Sites, res.Writes, len(res.Vars), res.Vars, res.Heap)
	case "run":
		adhoc(os.Args[2:])
	case "worker":
		os.Exit(worker(os.Args[2:]))
	case "reduce":
		if len(os.Args) < 3 {
			usage()
		}
		os.Exit(core.RunReduce(os.Args[2]))
	case "replay":
		if len(os.Args) < 3 {
			usage()
		}
		os.Exit(core.RunReplay(os.Args[2]))
	default:
		usage()
	}
}

// adhoc: kvqlmc run '<query>' [k=v,k=v] [row|batch] [B]  (debugging aid)
func adhoc(args []string) {
	if len(args) < 1 {
		usage()
	}
	var ps []store.Pair
	if len(args) > 1 && args[1] != "" {
		for _, kv := range strings.Split(args[1], ",") {
			p := strings.SplitN(kv, "=", 2)
			if len(p) == 2 {
				ps = append(ps, store.Pair{K: p[0], V: p[1]})
			}
		}
	}
	modes := []string{drv.Row, drv.Batch}
	if len(args) > 2 && args[2] != "" {
		modes = []string{args[2]}
	}
	b := 2
	if len(args) > 3 {
		b, _ = strconv.Atoi(args[3])
	}
	for _, m := range modes {
		st := store.New(ps)
		out := drv.Run(args[0], st, drv.Opt{Mode: m, B: b})
		fmt.Printf("[%s B=%d] %s\n", m, b, out.Describe())
		if out.Plan != nil {
			fmt.Printf("   plan: %s\n", strings.Join(out.Explain, " <- "))
		}
		if out.Panic != "" {
			fmt.Println(out.Stack)
		}
		var logs []string
		for _, o := range st.Log {
			logs = append(logs, o.String())
		}
		fmt.Printf("   calls: %s\n   store after: %s\n", strings.Join(logs, " "), st.Canon())
	}
}

func usage() {
	fmt.Fprintln(os.Stderr, "usage: kvqlmc check <Cxx> --tier quick|thorough | replay <path> | list")
	os.Exit(2)
}

func worker(args []string) int {
	// address-space cap: a runaway allocation must die, not take the box down
	var lim syscall.Rlimit
	lim.Cur, lim.Max = 24<<30, 24<<30
	syscall.Setrlimit(syscall.RLIMIT_AS, &lim)
	a := core.WorkerArgs{Check: args[0], Tier: core.Quick, NShards: 1}
	for i := 1; i < len(args); i++ {
		next := func() string {
			i++
			if i >= len(args) {
				usage()
			}
			return args[i]
		}
		switch args[i] {
		case "--tier":
			a.Tier = core.Tier(next())
		case "--shard":
			p := strings.SplitN(next(), "/", 2)
			a.Shard, _ = strconv.Atoi(p[0])
			a.NShards, _ = strconv.Atoi(p[1])
		case "--seed":
			a.Seed, _ = strconv.ParseUint(next(), 10, 64)
		case "--journal":
			a.Journal = next()
		case "--from":
			a.From, _ = strconv.Atoi(next())
		case "--deadline":
			v, _ := strconv.ParseInt(next(), 10, 64)
			if v > 0 {
				a.Deadline = time.Unix(v, 0)
			}
		case "--skip":
			m := map[string][]int{}
			json.Unmarshal([]byte(next()), &m)
			a.Skip = map[int][]int{}
			for k, v := range m {
				u, _ := strconv.Atoi(k)
				a.Skip[u] = v
			}
		}
	}
	return core.RunWorker(a)
}
