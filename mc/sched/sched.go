// Package sched is a cooperative scheduler plus a stateless, preemption-
// bounded depth-first explorer (iterative context bounding).
//
// Every thread body runs on its own goroutine but only the goroutine holding
// the baton runs. Point() hands the baton back to the scheduler, which asks
// the explorer which thread runs next. Enabled threads are listed in canonical
// order: the running thread first if it is still enabled, then ascending ids;
// choice 0 therefore means "continue". Switching away from a still-enabled
// thread costs one preemption. Executions always run to completion; kvql has
// no blocking primitive, so deadlock / livelock cannot arise.
package sched

import (
	"fmt"
)

// Exec is one controlled execution.
type Exec struct {
	n       int
	wake    []chan struct{}
	yield   chan int
	done    []bool
	cur     int
	choices []int // replayed prefix, then extended
	pos     int
	Points  []PointInfo
	Panics  []string
	label   string
}

// PointInfo records one scheduling decision.
type PointInfo struct {
	Enabled        []int
	Chosen         int // index into Enabled
	RunningEnabled bool
	Label          string // what the previously running thread is about to do
}

// Cur is the id of the running thread (valid inside thread bodies and hooks).
func (e *Exec) Cur() int { return e.cur }

// Point is called by the running thread before a visible operation.
func (e *Exec) Point(label string) {
	id := e.cur
	e.label = label
	e.yield <- id
	<-e.wake[id]
}

// Run executes bodies under the schedule given by prefix (then choice 0).
// A choice outside the enabled set while replaying is a hard error.
func Run(bodies []func(e *Exec, id int), prefix []int) (*Exec, error) {
	n := len(bodies)
	e := &Exec{n: n, wake: make([]chan struct{}, n), yield: make(chan int), done: make([]bool, n), cur: -1, choices: prefix}
	for i := range e.wake {
		e.wake[i] = make(chan struct{})
	}
	for i := 0; i < n; i++ {
		i := i
		go func() {
			<-e.wake[i]
			func() {
				defer func() {
					if r := recover(); r != nil {
						e.Panics = append(e.Panics, fmt.Sprintf("thread %d: %v", i, r))
					}
				}()
				bodies[i](e, i)
			}()
			e.done[i] = true
			e.yield <- i
		}()
	}
	remaining := n
	for remaining > 0 {
		var enabled []int
		runningEnabled := e.cur >= 0 && !e.done[e.cur]
		if runningEnabled {
			enabled = append(enabled, e.cur)
		}
		for i := 0; i < n; i++ {
			if !e.done[i] && !(runningEnabled && i == e.cur) {
				enabled = append(enabled, i)
			}
		}
		choice := 0
		if e.pos < len(e.choices) {
			choice = e.choices[e.pos]
			if choice < 0 || choice >= len(enabled) {
				// drain: let everything finish to avoid leaking goroutines
				return e, fmt.Errorf("replay divergence at point %d: choice %d of %d enabled", e.pos, choice, len(enabled))
			}
		} else {
			e.choices = append(e.choices, 0)
		}
		e.pos++
		e.Points = append(e.Points, PointInfo{Enabled: enabled, Chosen: choice, RunningEnabled: runningEnabled, Label: e.label})
		e.cur = enabled[choice]
		e.wake[e.cur] <- struct{}{}
		id := <-e.yield
		if e.done[id] {
			remaining--
		}
	}
	return e, nil
}

// Choices returns the complete choice vector of the execution.
func (e *Exec) Choices() []int { return e.choices }

// preemptionsBefore counts preemptions among the first i decisions.
func (e *Exec) preemptionsBefore(i int) int {
	c := 0
	for k := 0; k < i; k++ {
		p := e.Points[k]
		if p.RunningEnabled && p.Chosen != 0 {
			c++
		}
	}
	return c
}

// Stats of an exploration.
type Stats struct {
	Schedules      int64
	Points         int64
	MaxPoints      int
	MaxPreemptions int
	Concurrent     int64 // schedules with at least one switch between live threads
}

// Explore enumerates every schedule with at most bound preemptions.
// check is called for each complete execution; returning false stops.
// filter (optional) restricts the FIRST deviation from the default schedule
// to decision indexes i with filter(i) == true (used to shard the search).
func Explore(bodies func() []func(e *Exec, id int), bound int, filter func(i int) bool, check func(e *Exec) bool) (Stats, error) {
	var st Stats
	var rec func(prefix []int, depth int) (bool, error)
	rec = func(prefix []int, depth int) (bool, error) {
		x, err := Run(bodies(), prefix)
		if err != nil {
			return false, err
		}
		st.Schedules++
		st.Points += int64(len(x.Points))
		if len(x.Points) > st.MaxPoints {
			st.MaxPoints = len(x.Points)
		}
		pre := x.preemptionsBefore(len(x.Points))
		if pre > st.MaxPreemptions {
			st.MaxPreemptions = pre
		}
		switched := false
		for _, p := range x.Points {
			if p.RunningEnabled && p.Chosen != 0 {
				switched = true
			}
		}
		if switched {
			st.Concurrent++
		}
		if !check(x) {
			return false, nil
		}
		for i := len(prefix); i < len(x.Points); i++ {
			if depth == 0 && filter != nil && !filter(i) {
				continue
			}
			p := x.Points[i]
			cost := x.preemptionsBefore(i)
			if p.RunningEnabled {
				cost++
			}
			if cost > bound {
				continue
			}
			for alt := 1; alt < len(p.Enabled); alt++ {
				np := append(append([]int{}, x.choices[:i]...), alt)
				ok, err := rec(np, depth+1)
				if err != nil || !ok {
					return ok, err
				}
			}
		}
		return true, nil
	}
	_, err := rec(nil, 0)
	return st, err
}
