// Package store is the reference in-memory Storage used by every check.
//
// Contract implemented (DESIGN.md §2): Get returns nil for an absent key and a
// non-nil (possibly empty) slice for a present one; Cursor() is a snapshot
// taken at creation; Seek(k) positions at the first key >= k; Next returns
// (nil,nil,nil) at the end; every returned slice is a fresh copy.
package store

import (
	"encoding/json"
	"errors"
	"fmt"
	"sort"
	"strconv"
	"strings"
	"sync"
	"unicode/utf8"

	"github.com/c4pt0r/kvql"
)

// ErrInjected is the sentinel returned by an injected fault.
var ErrInjected = errors.New("verif: injected storage fault")

type Pair struct{ K, V string }

// A pair whose key or value is no valid UTF-8 travels through JSON (journal,
// replay files) as bytes: JSON text would replace the invalid bytes.
type pairWire struct {
	K  string `json:"K"`
	V  string `json:"V"`
	KB []byte `json:"kb,omitempty"`
	VB []byte `json:"vb,omitempty"`
}

func (p Pair) MarshalJSON() ([]byte, error) {
	w := pairWire{K: p.K, V: p.V}
	if !utf8.ValidString(p.K) {
		w.K, w.KB = strconv.QuoteToASCII(p.K), []byte(p.K)
	}
	if !utf8.ValidString(p.V) {
		w.V, w.VB = strconv.QuoteToASCII(p.V), []byte(p.V)
	}
	return json.Marshal(w)
}

func (p *Pair) UnmarshalJSON(b []byte) error {
	var w pairWire
	if err := json.Unmarshal(b, &w); err != nil {
		return err
	}
	p.K, p.V = w.K, w.V
	if w.KB != nil {
		p.K = string(w.KB)
	}
	if w.VB != nil {
		p.V = string(w.VB)
	}
	return nil
}

type Op struct {
	Kind string   // Cursor Seek Next Get Put BatchPut Delete BatchDelete
	Args []string // keys (and values for puts: k,v,k,v...)
	Ret  string   // for Next: returned key ("" at EOF with EOF=true); for Get: value
	EOF  bool     // Next hit the end / Get found nothing
	Err  bool     // this call returned the injected error
}

func (o Op) String() string {
	s := o.Kind
	if len(o.Args) > 0 {
		s += "(" + strings.Join(o.Args, ",") + ")"
	}
	switch o.Kind {
	case "Next":
		if o.EOF {
			s += "->EOF"
		} else {
			s += "->" + o.Ret
		}
	case "Get":
		if o.EOF {
			s += "->nil"
		} else {
			s += "->" + o.Ret
		}
	}
	if o.Err {
		s += "!ERR"
	}
	return s
}

func (o Op) Mutating() bool {
	switch o.Kind {
	case "Put", "BatchPut", "Delete", "BatchDelete":
		return true
	}
	return false
}

type MemStore struct {
	keys []string
	vals map[string]string
	Log  []Op
	// FaultAt >= 0: the FaultAt-th storage/cursor call (0-based, counting every
	// method of Storage and Cursor) returns ErrInjected.
	FaultAt int
	// FaultWithData: the failing Get / Next returns, next to the error, what it
	// had read (a key whose value could not be fetched, a value read before the
	// error was noticed): an error is an error whatever comes with it
	FaultWithData bool
	calls         int
	// Yield, when set, is called before every storage/cursor operation.
	Yield func(op string)
	// NoLog disables the call log (used by the free-running race pass, where
	// several goroutines share one store read-only).
	NoLog bool
	// kept != nil: the store hands out the slices it keeps (one per key and one
	// per value, each with spare capacity behind it) instead of fresh copies, as
	// a storage backed by an in-memory table does (examples/memkv): what one
	// statement writes into such a slice, every other reader sees.
	kept map[string]*[2][]byte
}

// NewKept is New for a store that hands out the slices it keeps.
func NewKept(pairs []Pair) *MemStore {
	s := New(pairs)
	s.kept = map[string]*[2][]byte{}
	for _, k := range s.keys {
		s.kept[k] = &[2][]byte{spare(k), spare(s.vals[k])}
	}
	return s
}

// KeptIntact reports whether every kept slice, and the spare capacity behind
// it, still holds what the store put there ("" when intact).
func (s *MemStore) KeptIntact() string {
	chk := func(b []byte, want string) bool {
		if string(b) != want {
			return false
		}
		for _, c := range b[len(b):cap(b)] {
			if c != 0 {
				return false
			}
		}
		return true
	}
	for _, k := range s.keys {
		e := s.kept[k]
		if e == nil {
			continue
		}
		if !chk(e[0], k) {
			return fmt.Sprintf("the kept slice of key %q now reads %q", k, e[0][:cap(e[0])])
		}
		if !chk(e[1], s.vals[k]) {
			return fmt.Sprintf("the kept slice of the value of %q (%q) now reads %q", k, s.vals[k], e[1][:cap(e[1])])
		}
	}
	return ""
}

func New(pairs []Pair) *MemStore {
	s := &MemStore{vals: map[string]string{}, FaultAt: -1}
	for _, p := range pairs {
		if _, ok := s.vals[p.K]; !ok {
			s.keys = append(s.keys, p.K)
		}
		s.vals[p.K] = p.V
	}
	sort.Strings(s.keys)
	return s
}

func (s *MemStore) Clone() *MemStore {
	c := &MemStore{vals: make(map[string]string, len(s.vals)), FaultAt: -1}
	c.keys = append([]string(nil), s.keys...)
	for k, v := range s.vals {
		c.vals[k] = v
	}
	return c
}

func (s *MemStore) Pairs() []Pair {
	out := make([]Pair, len(s.keys))
	for i, k := range s.keys {
		out[i] = Pair{k, s.vals[k]}
	}
	return out
}

func (s *MemStore) Len() int { return len(s.keys) }

// Canon is a canonical one-line rendering of the contents.
func (s *MemStore) Canon() string { return CanonPairs(s.Pairs()) }

func CanonPairs(ps []Pair) string {
	var b strings.Builder
	b.WriteByte('{')
	for i, p := range ps {
		if i > 0 {
			b.WriteByte(' ')
		}
		fmt.Fprintf(&b, "%q:%q", p.K, p.V)
	}
	b.WriteByte('}')
	return b.String()
}

// spare returns a private copy of s with spare capacity behind it, as a
// storage that hands out sub-slices of pages or pooled buffers would: code that
// appends to a returned key / value in place then corrupts visibly.
func spare(s string) []byte {
	b := make([]byte, len(s), len(s)+16)
	copy(b, s)
	return b
}

// CanonPairsList renders an ordered list of pairs (duplicates kept).
func CanonPairsList(ps []Pair) string { return CanonPairs(ps) }

func (s *MemStore) ResetLog() { s.Log = nil; s.calls = 0 }

func (s *MemStore) Calls() int { return s.calls }

// step accounts one call; it returns true when the call must fail.
func (s *MemStore) step(op string) bool {
	if s.Yield != nil {
		s.Yield(op)
	}
	if s.NoLog {
		return false
	}
	i := s.calls
	s.calls++
	return s.FaultAt >= 0 && i == s.FaultAt
}

func (s *MemStore) log(o Op) {
	if !s.NoLog {
		s.Log = append(s.Log, o)
	}
}

func (s *MemStore) Get(key []byte) ([]byte, error) {
	if s.step("Get") {
		s.log(Op{Kind: "Get", Args: []string{string(key)}, Err: true})
		if v, ok := s.vals[string(key)]; ok && s.FaultWithData {
			return spare(v), ErrInjected
		}
		return nil, ErrInjected
	}
	v, ok := s.vals[string(key)]
	if !ok {
		s.log(Op{Kind: "Get", Args: []string{string(key)}, EOF: true})
		return nil, nil
	}
	s.log(Op{Kind: "Get", Args: []string{string(key)}, Ret: v})
	if e := s.kept[string(key)]; e != nil {
		return e[1], nil
	}
	return spare(v), nil
}

func (s *MemStore) put(k, v string) {
	if _, ok := s.vals[k]; !ok {
		i := sort.SearchStrings(s.keys, k)
		s.keys = append(s.keys, "")
		copy(s.keys[i+1:], s.keys[i:])
		s.keys[i] = k
	}
	s.vals[k] = v
	if s.kept != nil {
		s.kept[k] = &[2][]byte{spare(k), spare(v)}
	}
}

func (s *MemStore) del(k string) {
	if _, ok := s.vals[k]; ok {
		i := sort.SearchStrings(s.keys, k)
		s.keys = append(s.keys[:i:i], s.keys[i+1:]...)
		delete(s.vals, k)
		delete(s.kept, k)
	}
}

func (s *MemStore) Put(key, value []byte) error {
	if s.step("Put") {
		s.log(Op{Kind: "Put", Args: []string{string(key), string(value)}, Err: true})
		return ErrInjected
	}
	s.log(Op{Kind: "Put", Args: []string{string(key), string(value)}})
	s.put(string(key), string(value))
	return nil
}

func (s *MemStore) BatchPut(kvs []kvql.KVPair) error {
	args := make([]string, 0, 2*len(kvs))
	for _, kv := range kvs {
		args = append(args, string(kv.Key), string(kv.Value))
	}
	if s.step("BatchPut") {
		s.log(Op{Kind: "BatchPut", Args: args, Err: true})
		return ErrInjected
	}
	s.log(Op{Kind: "BatchPut", Args: args})
	for _, kv := range kvs {
		s.put(string(kv.Key), string(kv.Value))
	}
	return nil
}

func (s *MemStore) Delete(key []byte) error {
	if s.step("Delete") {
		s.log(Op{Kind: "Delete", Args: []string{string(key)}, Err: true})
		return ErrInjected
	}
	s.log(Op{Kind: "Delete", Args: []string{string(key)}})
	s.del(string(key))
	return nil
}

func (s *MemStore) BatchDelete(keys [][]byte) error {
	args := make([]string, len(keys))
	for i, k := range keys {
		args[i] = string(k)
	}
	if s.step("BatchDelete") {
		s.log(Op{Kind: "BatchDelete", Args: args, Err: true})
		return ErrInjected
	}
	s.log(Op{Kind: "BatchDelete", Args: args})
	for _, k := range args {
		s.del(k)
	}
	return nil
}

type cursor struct {
	s    *MemStore
	keys []string
	vals []string
	kept []*[2][]byte // the store's own slices (kept stores only)
	idx  int
}

func (s *MemStore) Cursor() (kvql.Cursor, error) {
	if s.step("Cursor") {
		s.log(Op{Kind: "Cursor", Err: true})
		return nil, ErrInjected
	}
	s.log(Op{Kind: "Cursor"})
	c := &cursor{s: s, keys: append([]string(nil), s.keys...)}
	c.vals = make([]string, len(c.keys))
	for i, k := range c.keys {
		c.vals[i] = s.vals[k]
		if s.kept != nil {
			c.kept = append(c.kept, s.kept[k])
		}
	}
	return c, nil
}

func (c *cursor) Seek(k []byte) error {
	if c.s.step("Seek") {
		c.s.log(Op{Kind: "Seek", Args: []string{string(k)}, Err: true})
		return ErrInjected
	}
	c.s.log(Op{Kind: "Seek", Args: []string{string(k)}})
	c.idx = sort.SearchStrings(c.keys, string(k))
	return nil
}

func (c *cursor) Next() ([]byte, []byte, error) {
	if c.s.step("Next") {
		c.s.log(Op{Kind: "Next", Err: true})
		if c.s.FaultWithData && c.idx < len(c.keys) {
			return spare(c.keys[c.idx]), nil, ErrInjected
		}
		return nil, nil, ErrInjected
	}
	if c.idx >= len(c.keys) {
		c.s.log(Op{Kind: "Next", EOF: true})
		return nil, nil, nil
	}
	k, v := c.keys[c.idx], c.vals[c.idx]
	c.idx++
	c.s.log(Op{Kind: "Next", Ret: k})
	if c.kept != nil {
		return c.kept[c.idx-1][0], c.kept[c.idx-1][1], nil
	}
	return spare(k), spare(v), nil
}

// Locked is a mutex-protected (thread-safe) wrapper used by the free-running
// race-detector pass when statements share a store that is written to.
type Locked struct {
	mu sync.Mutex
	s  *MemStore
}

func NewLocked(s *MemStore) *Locked { return &Locked{s: s} }

func (l *Locked) Get(key []byte) ([]byte, error) {
	l.mu.Lock()
	defer l.mu.Unlock()
	return l.s.Get(key)
}
func (l *Locked) Put(key, value []byte) error {
	l.mu.Lock()
	defer l.mu.Unlock()
	return l.s.Put(key, value)
}
func (l *Locked) BatchPut(kvs []kvql.KVPair) error {
	l.mu.Lock()
	defer l.mu.Unlock()
	return l.s.BatchPut(kvs)
}
func (l *Locked) Delete(key []byte) error {
	l.mu.Lock()
	defer l.mu.Unlock()
	return l.s.Delete(key)
}
func (l *Locked) BatchDelete(keys [][]byte) error {
	l.mu.Lock()
	defer l.mu.Unlock()
	return l.s.BatchDelete(keys)
}

// Cursor returns a private snapshot cursor (no shared state afterwards).
func (l *Locked) Cursor() (kvql.Cursor, error) {
	l.mu.Lock()
	defer l.mu.Unlock()
	c, err := l.s.Cursor()
	if err != nil {
		return nil, err
	}
	cc := c.(*cursor)
	return &cursor{s: &MemStore{NoLog: true, FaultAt: -1}, keys: cc.keys, vals: cc.vals, kept: cc.kept}, nil
}

// Canon of the wrapped store.
func (l *Locked) Canon() string {
	l.mu.Lock()
	defer l.mu.Unlock()
	return l.s.Canon()
}
