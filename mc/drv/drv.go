// Package drv drives the real kvql library through its exported API the way
// the README / examples/memkv do: BuildPlan, NewExecuteCtx, then either Next
// until (nil,nil) or Batch until an empty slice; stop at the first error.
package drv

import (
	"fmt"
	"runtime/debug"
	"strings"

	"github.com/c4pt0r/kvql"

	"verif/mc/ref"
	"verif/mc/store"
)

const (
	Row   = "row"
	Batch = "batch"
)

// Opt configures one execution.
type Opt struct {
	Mode      string // Row or Batch
	B         int    // kvql.PlanBatchSize for this execution (0: leave as is)
	Cache     int    // 0 default, 1 force ctx.EnableCache=true, 2 force false
	ExtraPoll int    // polls after the end of the stream
	MaxRows   int    // safety cap on rows (0: 100000)
	KeepRaw   bool   // keep raw columns
	// AfterPoll, when set, runs between a poll that returned rows and the
	// reading of those rows (a caller that receives rows and looks at them later)
	AfterPoll func()
	// Warmup: before the execution that is reported, the plan is polled that
	// many times with a context of its own (-1: to the end of the stream), the
	// rows are thrown away and the plan is re-armed with Init()
	Warmup int
}

// Outcome of one execution.
type Outcome struct {
	BuildErr error // BuildPlan failed
	ExecErr  error // Next/Batch failed
	Panic    string
	Stack    string
	Rows     []string // canonical rows
	Raw      [][]any
	Fields   []string
	Explain  []string
	Plan     kvql.FinalPlan
	Polls    int   // number of Next/Batch calls made
	Chunks   []int // batch mode: rows per Batch call
	Capped   bool
}

func (o *Outcome) Err() error {
	if o.BuildErr != nil {
		return o.BuildErr
	}
	return o.ExecErr
}

// Failed: build error, execution error or panic.
func (o *Outcome) Failed() bool { return o.BuildErr != nil || o.ExecErr != nil || o.Panic != "" }

// Status is a short outcome class.
func (o *Outcome) Status() string {
	switch {
	case o.Panic != "":
		return "panic"
	case o.BuildErr != nil:
		return "rejected"
	case o.ExecErr != nil:
		return "execerr"
	}
	return "ok"
}

// Describe renders the outcome for reports.
func (o *Outcome) Describe() string {
	switch {
	case o.Panic != "":
		return "PANIC: " + o.Panic
	case o.BuildErr != nil:
		return "BUILD-ERROR: " + oneLine(o.BuildErr.Error())
	case o.ExecErr != nil:
		return fmt.Sprintf("EXEC-ERROR after %d rows: %s", len(o.Rows), oneLine(o.ExecErr.Error()))
	}
	return fmt.Sprintf("%d rows: [%s]", len(o.Rows), strings.Join(o.Rows, " ; "))
}

func oneLine(s string) string { return strings.ReplaceAll(s, "\n", "\\n") }

// Build builds a plan, recovering panics.
func Build(q string, st kvql.Storage) (plan kvql.FinalPlan, err error, pan string, stack string) {
	defer func() {
		if r := recover(); r != nil {
			pan = fmt.Sprint(r)
			stack = string(debug.Stack())
		}
	}()
	plan, err = kvql.NewOptimizer(q).BuildPlan(st)
	return
}

// Run builds and drains one statement.
func Run(q string, st kvql.Storage, opt Opt) *Outcome {
	if opt.B > 0 {
		kvql.PlanBatchSize = opt.B
	}
	out := &Outcome{}
	plan, err, pan, stack := Build(q, st)
	if pan != "" {
		out.Panic, out.Stack = pan, stack
		return out
	}
	if err != nil {
		out.BuildErr = err
		return out
	}
	out.Plan = plan
	Drain(plan, opt, out)
	return out
}

// Drain drains an already built plan into out.
func Drain(plan kvql.FinalPlan, opt Opt, out *Outcome) {
	defer func() {
		if r := recover(); r != nil {
			out.Panic = fmt.Sprint(r)
			out.Stack = string(debug.Stack())
		}
	}()
	if opt.B > 0 {
		kvql.PlanBatchSize = opt.B
	}
	maxRows := opt.MaxRows
	if maxRows == 0 {
		maxRows = 100000
	}
	out.Fields = plan.FieldNameList()
	out.Explain = plan.Explain()
	ctx := kvql.NewExecuteCtx()
	switch opt.Cache {
	case 1:
		ctx.EnableCache = true
	case 2:
		ctx.EnableCache = false
	}
	add := func(cols []kvql.Column) {
		row := make([]any, len(cols))
		for i, c := range cols {
			row[i] = c
		}
		out.Rows = append(out.Rows, ref.CanonRow(row))
		if opt.KeepRaw {
			out.Raw = append(out.Raw, row)
		}
	}
	if opt.Warmup != 0 {
		wctx := kvql.NewExecuteCtx()
		wctx.EnableCache = ctx.EnableCache
		for i := 0; opt.Warmup < 0 || i < opt.Warmup; i++ {
			var done bool
			var err error
			if opt.Mode == Row {
				var cols []kvql.Column
				cols, err = plan.Next(wctx)
				done = cols == nil
			} else {
				var rows [][]kvql.Column
				rows, err = plan.Batch(wctx)
				done = len(rows) == 0
			}
			if err != nil {
				out.ExecErr = err
				return
			}
			if done {
				break
			}
		}
		if err := plan.Init(); err != nil {
			out.ExecErr = err
			return
		}
	}
	extra := opt.ExtraPoll
	if opt.Mode == Row {
		for {
			out.Polls++
			cols, err := plan.Next(ctx)
			if err != nil {
				out.ExecErr = err
				return
			}
			if cols == nil {
				if extra > 0 {
					extra--
					continue
				}
				return
			}
			if opt.AfterPoll != nil {
				opt.AfterPoll()
			}
			add(cols)
			if len(out.Rows) > maxRows {
				out.Capped = true
				return
			}
		}
	}
	for {
		out.Polls++
		rows, err := plan.Batch(ctx)
		if err != nil {
			out.ExecErr = err
			return
		}
		out.Chunks = append(out.Chunks, len(rows))
		if len(rows) == 0 {
			if extra > 0 {
				extra--
				continue
			}
			return
		}
		if opt.AfterPoll != nil {
			opt.AfterPoll()
		}
		for _, r := range rows {
			add(r)
		}
		if len(out.Rows) > maxRows {
			out.Capped = true
			return
		}
	}
}

// PairsRows renders (key,value) pairs as canonical select-* rows.
func PairsRows(ps []store.Pair) []string {
	out := make([]string, len(ps))
	for i, p := range ps {
		out[i] = ref.T(p.K).Canon() + " | " + ref.T(p.V).Canon()
	}
	return out
}

// EqualRows compares two canonical row lists.
func EqualRows(a, b []string) bool {
	if len(a) != len(b) {
		return false
	}
	for i := range a {
		if a[i] != b[i] {
			return false
		}
	}
	return true
}
