// Package core is the shared machinery: check registry, per-unit reporter,
// worker protocol (journal + streamed unit records), supervisor (sharding,
// crash/hang isolation, reduction to root cases, known findings, evidence).
package core

import (
	"encoding/json"
	"fmt"
	"hash/fnv"
	"os"
	"sort"
	"strings"
)

// VERIF_DUMP=<substring>: workers print every case whose outcome class
// contains the substring (debugging aid).
var dumpStatus = os.Getenv("VERIF_DUMP")

type Tier string

const (
	Quick    Tier = "quick"
	Thorough Tier = "thorough"
)

// Failure is one case on which an oracle disagreed.
type Failure struct {
	Property string          `json:"property"`
	Leg      string          `json:"leg"`       // which oracle / sub-check
	Sig      string          `json:"signature"` // kind of mismatch (used to keep reductions honest)
	Case     string          `json:"case"`      // canonical one-line case text (identity)
	Data     json.RawMessage `json:"data"`      // check-specific payload, enough to replay
	Expected string          `json:"expected"`
	Observed string          `json:"observed"`
	Crash    bool            `json:"crash,omitempty"` // the worker process died / hung on this case
}

// Info describes a check for MANIFEST/evidence purposes.
type Info struct {
	ID          string
	Title       string
	Level       string // exploration | fault_enumeration | model_checking
	Rule        string // how cases are enumerated and what makes one non-trivial
	Assumptions []string
	// CrashIsViolation: a worker death / hang on a case violates this property.
	CrashIsViolation bool
	// SkipConfirm: failures are not re-confirmed by in-process replays (used
	// where the observation depends on process-wide library state that only
	// the first use in a process exhibits, e.g. a lazily filled global cache).
	SkipConfirm bool
}

// Check is implemented once per property.
type Check interface {
	Info() Info
	// Units is the number of independent outer units of the enumeration.
	Units(t Tier) int
	// RunUnit explores unit u completely.
	RunUnit(t Tier, u int, r *Reporter)
	// Replay re-judges one recorded case; nil means it passes now.
	Replay(data json.RawMessage) *Failure
}

// Reducer is optionally implemented: Simplify lists the one-step
// simplifications of a case, simplest first.
type Reducer interface {
	Simplify(data json.RawMessage) []json.RawMessage
}

// PostRunner is optionally implemented: PostRun runs once in the supervisor
// after all units (e.g. a supporting pass with another binary). Notes are
// merged into the evidence coverage.
type PostRunner interface {
	PostRun(t Tier) ([]Failure, map[string]any)
}

var registry = map[string]Check{}

func Register(c Check) { registry[c.Info().ID] = c }

func Lookup(id string) Check { return registry[id] }

func IDs() []string {
	ids := make([]string, 0, len(registry))
	for k := range registry {
		ids = append(ids, k)
	}
	sort.Strings(ids)
	return ids
}

func hash64(s string) uint64 {
	h := fnv.New64a()
	h.Write([]byte(s))
	return h.Sum64()
}

// UnitRecord is what a worker streams to the supervisor after each unit.
type UnitRecord struct {
	Unit       int              `json:"u"`
	Evals      int64            `json:"e"`
	Cases      int64            `json:"c"`
	Nontrivial int64            `json:"n"`
	Outcomes   map[string]int64 `json:"o,omitempty"`
	OutHashes  []uint64         `json:"h,omitempty"`
	Counters   map[string]int64 `json:"k,omitempty"`
	Failures   []Failure        `json:"f,omitempty"`
	FailCount  int64            `json:"fc,omitempty"`
	Samples    []Sample         `json:"s,omitempty"`
	Dups       int64            `json:"d,omitempty"`
}

type Sample struct {
	Prio uint64 `json:"p"`
	Text string `json:"t"`
}

// Reporter collects what one unit did.
type Reporter struct {
	seed     uint64
	rec      UnitRecord
	seen     map[uint64]struct{}
	outSeen  map[uint64]struct{}
	journal  *Journal
	caseIdx  int
	skip     map[int]bool // case indices (within this unit) to skip: they crashed before
	maxFails int
	// describe mode: execute nothing, capture the description of one case
	describe    bool
	describeIdx int
	described   *Failure
}

func newReporter(seed uint64, unit int, j *Journal, skip map[int]bool) *Reporter {
	return &Reporter{
		seed:     seed,
		rec:      UnitRecord{Unit: unit, Outcomes: map[string]int64{}, Counters: map[string]int64{}},
		seen:     map[uint64]struct{}{},
		outSeen:  map[uint64]struct{}{},
		journal:  j,
		skip:     skip,
		maxFails: 40,
	}
}

// NewTestReporter is for in-process use (replay / tests).
func NewTestReporter() *Reporter { return newReporter(0, 0, nil, nil) }

// Begin announces the case about to be executed (journalled for crash
// isolation). It returns false when the case must be skipped because it
// killed a previous worker.
func (r *Reporter) Begin(desc func() *Failure) bool {
	idx := r.caseIdx
	r.caseIdx++
	if r.describe {
		if idx == r.describeIdx {
			r.described = desc()
		}
		return false
	}
	if r.skip != nil && r.skip[idx] {
		return false
	}
	if r.journal != nil {
		r.journal.Set(r.rec.Unit, idx)
	}
	return true
}

// Evals counts executions of real kvql code.
func (r *Reporter) Evals(n int) { r.rec.Evals += int64(n) }

// Case records one judged case: its identity text, whether it is non-trivial
// by the check's rule, and an outcome class for the histogram.
func (r *Reporter) Case(text string, nontrivial bool, outcome string) {
	r.rec.Cases++
	if dumpStatus != "" && strings.Contains(outcome, dumpStatus) {
		fmt.Fprintf(os.Stderr, "DUMP [%s] %s\n", outcome, text)
	}
	h := hash64(text)
	if _, dup := r.seen[h]; dup {
		r.rec.Dups++
	} else {
		r.seen[h] = struct{}{}
		if nontrivial {
			r.rec.Nontrivial++
		}
	}
	r.rec.Outcomes[outcome]++
	// sample selection by seed-keyed priority (seed only selects samples)
	p := hash64(text) ^ (r.seed * 0x9E3779B97F4A7C15)
	p ^= p >> 29
	p *= 0xBF58476D1CE4E5B9
	if nontrivial {
		p >>= 1 // prefer non-trivial cases
	} else {
		p = p>>1 | 1<<63
	}
	if len(r.rec.Samples) < 2 {
		r.rec.Samples = append(r.rec.Samples, Sample{p, text})
	} else {
		w := 0
		if r.rec.Samples[1].Prio > r.rec.Samples[0].Prio {
			w = 1
		}
		if p < r.rec.Samples[w].Prio {
			r.rec.Samples[w] = Sample{p, text}
		}
	}
}

// Observed records a distinct observed result (to expose vacuous exploration).
func (r *Reporter) Observed(s string) {
	if len(r.outSeen) >= 2000 {
		return
	}
	h := hash64(s)
	if _, ok := r.outSeen[h]; !ok {
		r.outSeen[h] = struct{}{}
	}
}

// Count bumps a named counter (states, transitions, schedules, ...).
func (r *Reporter) Count(name string, n int64) { r.rec.Counters[name] += n }

// Max keeps the maximum of a named counter.
func (r *Reporter) Max(name string, n int64) {
	if n > r.rec.Counters[name] {
		r.rec.Counters[name] = n
	}
}

// Fail records a failure.
func (r *Reporter) Fail(f Failure) {
	r.rec.FailCount++
	if len(r.rec.Failures) < r.maxFails {
		r.rec.Failures = append(r.rec.Failures, f)
	}
}

// Failures so far in this unit (for tests).
func (r *Reporter) FailureList() []Failure { return r.rec.Failures }

func (r *Reporter) finish() UnitRecord {
	for h := range r.outSeen {
		r.rec.OutHashes = append(r.rec.OutHashes, h)
	}
	return r.rec
}

// MustJSON marshals or panics (payloads are plain structs).
func MustJSON(v any) json.RawMessage {
	b, err := json.Marshal(v)
	if err != nil {
		panic(err)
	}
	return b
}
