package core

import (
	"encoding/json"
	"os"
	"path/filepath"
)

// Finding is one entry of /verif/known_findings.json (committed; never
// written at run time).
type Finding struct {
	ID        string   `json:"id"`
	Property  string   `json:"property"`
	Status    string   `json:"status"` // open | fixed
	What      string   `json:"what"`
	Commit    string   `json:"commit,omitempty"`
	Leg       string   `json:"leg,omitempty"`
	Witnesses []string `json:"witnesses,omitempty"` // canonical root-case texts
}

type Findings struct {
	Findings []Finding `json:"findings"`
}

func LoadFindings() *Findings {
	var f Findings
	b, err := os.ReadFile(filepath.Join(VerifDir, "known_findings.json"))
	if err != nil {
		return &f
	}
	json.Unmarshal(b, &f)
	return &f
}

// Match returns the open finding that lists this root case as a witness.
// Fixed entries suppress nothing.
func (fs *Findings) Match(prop string, f Failure) *Finding {
	for i := range fs.Findings {
		fd := &fs.Findings[i]
		if fd.Property != prop || fd.Status != "open" {
			continue
		}
		if fd.Leg != "" && fd.Leg != f.Leg {
			continue
		}
		for _, w := range fd.Witnesses {
			if w == f.Case {
				return fd
			}
		}
	}
	return nil
}
