package core

import (
	"bufio"
	"encoding/binary"
	"encoding/json"
	"fmt"
	"os"
	"runtime/debug"
	"syscall"
	"time"
)

// Journal is a small memory-mapped file in which a worker records the unit
// and case index it is about to execute, plus a heartbeat. It survives the
// worker's death (fatal runtime errors bypass recover) and lets the
// supervisor detect hangs.
type Journal struct {
	f   *os.File
	mem []byte
}

const journalSize = 64

func OpenJournal(path string, create bool) (*Journal, error) {
	flags := os.O_RDWR
	if create {
		flags |= os.O_CREATE | os.O_TRUNC
	}
	f, err := os.OpenFile(path, flags, 0o644)
	if err != nil {
		return nil, err
	}
	if create {
		if err := f.Truncate(journalSize); err != nil {
			return nil, err
		}
	}
	mem, err := syscall.Mmap(int(f.Fd()), 0, journalSize, syscall.PROT_READ|syscall.PROT_WRITE, syscall.MAP_SHARED)
	if err != nil {
		return nil, err
	}
	return &Journal{f: f, mem: mem}, nil
}

func (j *Journal) Set(unit, idx int) {
	binary.LittleEndian.PutUint64(j.mem[0:], uint64(int64(unit)))
	binary.LittleEndian.PutUint64(j.mem[8:], uint64(int64(idx)))
	binary.LittleEndian.PutUint64(j.mem[16:], binary.LittleEndian.Uint64(j.mem[16:])+1)
}

func (j *Journal) Get() (unit, idx int, beat uint64) {
	return int(int64(binary.LittleEndian.Uint64(j.mem[0:]))),
		int(int64(binary.LittleEndian.Uint64(j.mem[8:]))),
		binary.LittleEndian.Uint64(j.mem[16:])
}

func (j *Journal) Close() {
	syscall.Munmap(j.mem)
	j.f.Close()
}

// WorkerArgs configure one worker process.
type WorkerArgs struct {
	Check    string
	Tier     Tier
	Shard    int
	NShards  int
	Seed     uint64
	Journal  string
	From     int             // first unit (global index) to consider
	Skip     map[int][]int   // unit -> case indices to skip (they killed a previous worker)
	Deadline time.Time       // soft deadline (zero: none)
}

// RunWorker explores the units of one shard and streams one JSON UnitRecord
// per line to stdout, then a final {"done":true,...} line.
func RunWorker(a WorkerArgs) int {
	debug.SetMaxStack(64 << 20)
	c := Lookup(a.Check)
	if c == nil {
		fmt.Fprintf(os.Stderr, "unknown check %s\n", a.Check)
		return 2
	}
	var j *Journal
	if a.Journal != "" {
		var err error
		j, err = OpenJournal(a.Journal, false)
		if err != nil {
			fmt.Fprintf(os.Stderr, "journal: %v\n", err)
			return 2
		}
	}
	out := bufio.NewWriterSize(os.Stdout, 1<<16)
	enc := json.NewEncoder(out)
	// Enumerating the units may take a while (a check may build its whole case
	// pool first): beat while it runs so that the supervisor's hang watchdog
	// does not take the set-up for a hang; a set-up that does not end within
	// ten minutes stops beating and is killed
	setupDone := make(chan struct{})
	beatStopped := make(chan struct{})
	if j == nil {
		close(beatStopped)
	} else {
		go func() {
			defer close(beatStopped)
			t := time.NewTicker(time.Second)
			defer t.Stop()
			for i := 0; i < 600; i++ {
				select {
				case <-setupDone:
					return
				case <-t.C:
					j.Set(-1, -1)
				}
			}
		}()
	}
	n := c.Units(a.Tier)
	close(setupDone)
	<-beatStopped // (no stray beat may overwrite the unit recorded below)
	timedOut := false
	for u := a.From; u < n; u++ {
		if u%a.NShards != a.Shard {
			continue
		}
		if !a.Deadline.IsZero() && time.Now().After(a.Deadline) {
			timedOut = true
			break
		}
		var skip map[int]bool
		if s := a.Skip[u]; len(s) > 0 {
			skip = map[int]bool{}
			for _, i := range s {
				skip[i] = true
			}
		}
		if j != nil {
			j.Set(u, -1)
		}
		r := newReporter(a.Seed, u, j, skip)
		c.RunUnit(a.Tier, u, r)
		for _, h := range UnitEndHooks {
			h(r)
		}
		rec := r.finish()
		if err := enc.Encode(&rec); err != nil {
			fmt.Fprintf(os.Stderr, "encode: %v\n", err)
			return 2
		}
		out.Flush()
	}
	fmt.Fprintf(out, "{\"done\":true,\"timed_out\":%v}\n", timedOut)
	out.Flush()
	return 0
}

// UnitEndHooks run after every unit of a worker (e.g. to publish statistics of
// the reference evaluator as counters).
var UnitEndHooks []func(r *Reporter)

// Describe returns the description of case idx of unit u without executing
// anything.
func Describe(c Check, t Tier, u, idx int) *Failure {
	r := newReporter(0, u, nil, nil)
	r.describe = true
	r.describeIdx = idx
	c.RunUnit(t, u, r)
	return r.described
}
