package core

import (
	"bufio"
	"bytes"
	"crypto/sha1"
	"encoding/hex"
	"encoding/json"
	"fmt"
	"os"
	"os/exec"
	"path/filepath"
	"sort"
	"strconv"
	"strings"
	"sync"
	"syscall"
	"time"
)

// Dirs used by the supervisor.
var (
	VerifDir = envOr("VERIF_DIR", "/verif")
	BuildDir = filepath.Join(VerifDir, ".build")
)

func envOr(k, d string) string {
	if v := os.Getenv(k); v != "" {
		return v
	}
	return d
}

type merged struct {
	mu         sync.Mutex
	evals      int64
	cases      int64
	nontrivial int64
	dups       int64
	outcomes   map[string]int64
	outHashes  map[uint64]struct{}
	counters   map[string]int64
	failures   []Failure
	failCount  int64
	samples    []Sample
	unitsDone  map[int]bool
	crashes    []Failure
	timedOut   bool
	harnessErr []string
}

func (m *merged) add(rec *UnitRecord) {
	m.mu.Lock()
	defer m.mu.Unlock()
	m.evals += rec.Evals
	m.cases += rec.Cases
	m.nontrivial += rec.Nontrivial
	m.dups += rec.Dups
	for k, v := range rec.Outcomes {
		m.outcomes[k] += v
	}
	for _, h := range rec.OutHashes {
		if len(m.outHashes) < 5_000_000 {
			m.outHashes[h] = struct{}{}
		}
	}
	for k, v := range rec.Counters {
		if strings.HasPrefix(k, "max_") {
			if v > m.counters[k] {
				m.counters[k] = v
			}
		} else {
			m.counters[k] += v
		}
	}
	m.failCount += rec.FailCount
	if len(m.failures) < 4000 {
		m.failures = append(m.failures, rec.Failures...)
	}
	m.samples = append(m.samples, rec.Samples...)
	if len(m.samples) > 64 {
		sort.Slice(m.samples, func(i, j int) bool { return m.samples[i].Prio < m.samples[j].Prio })
		m.samples = m.samples[:16]
	}
	m.unitsDone[rec.Unit] = true
}

// RunCheck is the supervisor entry point. It returns the process exit code.
func RunCheck(id string, tier Tier) int {
	start := time.Now()
	c := Lookup(id)
	if c == nil {
		fmt.Fprintf(os.Stderr, "unknown check %q (have %v)\n", id, IDs())
		return 2
	}
	info := c.Info()
	seed := uint64(0)
	if s := os.Getenv("VERIF_SEED"); s != "" {
		if v, err := strconv.ParseInt(s, 10, 64); err == nil {
			seed = uint64(v)
		}
	}
	budget := 15 * time.Minute
	if tier == Thorough {
		budget = 90 * time.Minute
	}
	if s := os.Getenv("VERIF_BUDGET_S"); s != "" {
		if v, err := strconv.Atoi(s); err == nil && v > 0 {
			budget = time.Duration(v) * time.Second
		}
	}
	deadline := start.Add(budget)
	nUnits := c.Units(tier)
	nw := 16
	if s := os.Getenv("VERIF_WORKERS"); s != "" {
		if v, err := strconv.Atoi(s); err == nil && v > 0 {
			nw = v
		}
	}
	if nw > nUnits {
		nw = nUnits
	}
	if nw < 1 {
		nw = 1
	}
	jdir := filepath.Join(BuildDir, "journal")
	os.MkdirAll(jdir, 0o755)

	m := &merged{outcomes: map[string]int64{}, outHashes: map[uint64]struct{}{}, counters: map[string]int64{}, unitsDone: map[int]bool{}}
	var wg sync.WaitGroup
	for w := 0; w < nw; w++ {
		wg.Add(1)
		go func(w int) {
			defer wg.Done()
			superviseShard(c, id, tier, w, nw, seed, deadline, jdir, m)
		}(w)
	}
	wg.Wait()

	postNotes := map[string]any{}
	if pr, ok := c.(PostRunner); ok {
		fs, notes := pr.PostRun(tier)
		for k, v := range notes {
			postNotes[k] = v
		}
		m.failures = append(m.failures, fs...)
		m.failCount += int64(len(fs))
	}
	// failures of leg "harness" are problems of the machinery, not of kvql
	{
		var keep []Failure
		for _, f := range m.failures {
			if f.Leg == "harness" {
				m.harnessErr = append(m.harnessErr, f.Sig+": "+f.Case+" "+f.Observed)
			} else {
				keep = append(keep, f)
			}
		}
		m.failures = keep
	}
	exhaustive := !m.timedOut && len(m.unitsDone) == nUnits
	// ---- judge failures ---------------------------------------------------
	kf := LoadFindings()
	roots, unconfirmed := reduceAndConfirm(id, m.failures)
	for _, cr := range m.crashes {
		if info.CrashIsViolation {
			roots = append(roots, cr)
		}
	}
	// distinct roots by case text
	seenRoot := map[string]bool{}
	var distinct []Failure
	for _, f := range roots {
		k := f.Leg + "\x00" + f.Case
		if !seenRoot[k] {
			seenRoot[k] = true
			distinct = append(distinct, f)
		}
	}
	knownHit := map[string]*Finding{}
	var violations []Failure
	for _, f := range distinct {
		if fd := kf.Match(id, f); fd != nil {
			knownHit[fd.ID] = fd
			continue
		}
		violations = append(violations, f)
	}
	ids := make([]string, 0, len(knownHit))
	for k := range knownHit {
		ids = append(ids, k)
	}
	sort.Strings(ids)
	for _, k := range ids {
		fmt.Printf("KNOWN-FINDING: property=%s %s (%s)\n", id, knownHit[k].What, k)
	}
	rdir := filepath.Join(VerifDir, "replays", id)
	if len(violations) > 0 {
		os.MkdirAll(rdir, 0o755)
	}
	shown := 0
	for _, f := range violations {
		if shown >= 25 {
			break
		}
		b, _ := json.MarshalIndent(f, "", " ")
		sum := sha1.Sum([]byte(f.Leg + "\x00" + f.Case))
		p := filepath.Join(rdir, hex.EncodeToString(sum[:6])+".json")
		os.WriteFile(p, b, 0o644)
		fmt.Printf("VIOLATION property=%s replay=%s\n", id, p)
		fmt.Printf("  leg=%s sig=%s\n  case: %s\n  expected: %s\n  observed: %s\n", f.Leg, f.Sig, f.Case, clip(f.Expected, 600), clip(f.Observed, 600))
		shown++
	}
	for _, f := range unconfirmed {
		fmt.Printf("UNCONFIRMED (did not fail on every replay; not reported as a violation): leg=%s case=%s\n", f.Leg, f.Case)
	}
	for _, cr := range m.crashes {
		if !info.CrashIsViolation {
			fmt.Printf("NOTE: worker died/hung on a case (an error outcome for this property, judged by C06): %s\n", cr.Case)
		}
	}
	for _, e := range m.harnessErr {
		fmt.Printf("HARNESS-ERROR: %s\n", e)
	}

	// ---- evidence ---------------------------------------------------------
	sort.Slice(m.samples, func(i, j int) bool { return m.samples[i].Prio < m.samples[j].Prio })
	var samples []any
	for i, s := range m.samples {
		if i >= 8 {
			break
		}
		samples = append(samples, s.Text)
	}
	cov := map[string]any{
		"evaluations":               m.evals,
		"cases":                     m.cases,
		"distinct_nontrivial":       m.nontrivial,
		"duplicate_case_texts":      m.dups,
		"rule":                      info.Rule,
		"samples":                   samples,
		"exhaustive":                exhaustive,
		"units_total":               nUnits,
		"units_completed":           len(m.unitsDone),
		"outcome_histogram":         m.outcomes,
		"distinct_observed_results": len(m.outHashes),
		"failing_cases":             m.failCount,
		"distinct_roots":            len(distinct),
		"known_findings_hit":        ids,
		"worker_crashes":            len(m.crashes),
		"workers":                   nw,
	}
	if !exhaustive {
		cov["not_exhaustive_reason"] = fmt.Sprintf("soft deadline of %s reached or units lost; %d of %d units fully explored", budget, len(m.unitsDone), nUnits)
	}
	for k, v := range m.counters {
		cov[k] = v
	}
	for k, v := range postNotes {
		cov[k] = v
	}
	if info.Level == "model_checking" {
		// every transition/schedule executes the real code
		if _, ok := cov["traces_validated_against_impl"]; !ok {
			cov["traces_validated_against_impl"] = m.counters["transitions"]
		}
	}
	ev := map[string]any{
		"property_id": id,
		"tier":        string(tier),
		"seed":        int64(seed),
		"level":       info.Level,
		"coverage":    cov,
		"assumptions": info.Assumptions,
		"wall_s":      time.Since(start).Seconds(),
		"violations":  len(violations),
	}
	os.MkdirAll(filepath.Join(VerifDir, "evidence"), 0o755)
	eb, _ := json.MarshalIndent(ev, "", " ")
	if err := os.WriteFile(filepath.Join(VerifDir, "evidence", id+".json"), eb, 0o644); err != nil {
		fmt.Fprintf(os.Stderr, "evidence: %v\n", err)
		return 2
	}
	fmt.Printf("%s %s: units %d/%d evaluations=%d cases=%d nontrivial=%d distinct_results=%d failing=%d roots=%d known=%d violations=%d exhaustive=%v wall=%.1fs\n",
		id, tier, len(m.unitsDone), nUnits, m.evals, m.cases, m.nontrivial, len(m.outHashes), m.failCount, len(distinct), len(ids), len(violations), exhaustive, time.Since(start).Seconds())
	if len(violations) > 0 {
		return 1
	}
	if len(m.harnessErr) > 0 || m.cases == 0 {
		if m.cases == 0 {
			fmt.Println("HARNESS-ERROR: zero cases judged")
		}
		return 2
	}
	return 0
}

func clip(s string, n int) string {
	if len(s) > n {
		return s[:n] + "…"
	}
	return s
}

// superviseShard runs (and re-runs after crashes) the worker of one shard.
func superviseShard(c Check, id string, tier Tier, shard, nshards int, seed uint64, deadline time.Time, jdir string, m *merged) {
	jpath := filepath.Join(jdir, fmt.Sprintf("%s-%d.j", id, shard))
	j, err := OpenJournal(jpath, true)
	if err != nil {
		m.mu.Lock()
		m.harnessErr = append(m.harnessErr, "journal: "+err.Error())
		m.mu.Unlock()
		return
	}
	defer func() { j.Close(); os.Remove(jpath) }()
	from := 0
	skip := map[int][]int{}
	restarts := 0
	for {
		args := []string{"worker", id, "--tier", string(tier), "--shard", fmt.Sprintf("%d/%d", shard, nshards),
			"--seed", strconv.FormatUint(seed, 10), "--journal", jpath, "--from", strconv.Itoa(from),
			"--deadline", strconv.FormatInt(deadline.Unix(), 10)}
		if len(skip) > 0 {
			b, _ := json.Marshal(skip)
			args = append(args, "--skip", string(b))
		}
		cmd := exec.Command(os.Args[0], args...)
		cmd.Env = append(os.Environ(), "GOMAXPROCS=1", "GOTRACEBACK=single")
		var stderr bytes.Buffer
		cmd.Stderr = &limitWriter{w: &stderr, n: 1 << 16}
		if dumpStatus != "" {
			cmd.Stderr = os.Stderr
		}
		stdout, _ := cmd.StdoutPipe()
		j.Set(-1, -1)
		if err := cmd.Start(); err != nil {
			m.mu.Lock()
			m.harnessErr = append(m.harnessErr, "start worker: "+err.Error())
			m.mu.Unlock()
			return
		}
		done := false
		killedForHang := false
		// hang watchdog
		stop := make(chan struct{})
		wdDone := make(chan struct{})
		go func() {
			defer close(wdDone)
			_, _, last := j.Get()
			lastChange := time.Now()
			t := time.NewTicker(time.Second)
			defer t.Stop()
			for {
				select {
				case <-stop:
					return
				case <-t.C:
					_, _, b := j.Get()
					if b != last {
						last = b
						lastChange = time.Now()
					} else if time.Since(lastChange) > hangLimit() {
						killedForHang = true
						cmd.Process.Kill()
						return
					}
				}
			}
		}()
		sc := bufio.NewScanner(stdout)
		sc.Buffer(make([]byte, 1<<20), 1<<28)
		for sc.Scan() {
			line := sc.Bytes()
			if bytes.HasPrefix(line, []byte(`{"done"`)) {
				done = true
				if bytes.Contains(line, []byte(`"timed_out":true`)) {
					m.mu.Lock()
					m.timedOut = true
					m.mu.Unlock()
				}
				continue
			}
			var rec UnitRecord
			if err := json.Unmarshal(line, &rec); err != nil {
				m.mu.Lock()
				m.harnessErr = append(m.harnessErr, "bad worker record: "+err.Error())
				m.mu.Unlock()
				continue
			}
			m.add(&rec)
		}
		werr := cmd.Wait()
		close(stop)
		<-wdDone // the watchdog reads the journal mapping: it must be gone before the mapping is
		if done && werr == nil {
			return
		}
		// the worker died or was killed
		u, idx, _ := j.Get()
		restarts++
		if u < 0 || restarts > 200 {
			m.mu.Lock()
			m.harnessErr = append(m.harnessErr, fmt.Sprintf("worker %d failed outside any unit (%v): %s", shard, werr, clip(stderr.String(), 2000)))
			m.mu.Unlock()
			return
		}
		why := "worker process died"
		if killedForHang {
			why = fmt.Sprintf("no progress for %s (killed)", hangLimit())
		}
		reason := firstLines(stderr.String(), 3)
		if idx < 0 {
			// died between cases: cannot attribute; give the unit up
			m.mu.Lock()
			m.harnessErr = append(m.harnessErr, fmt.Sprintf("worker %d died in unit %d outside any case: %s", shard, u, reason))
			m.mu.Unlock()
			from = u + 1
			continue
		}
		f := Describe(c, tier, u, idx)
		if f == nil {
			f = &Failure{Property: id, Case: fmt.Sprintf("unit %d case %d (description unavailable)", u, idx)}
		}
		f.Property = id
		f.Crash = true
		f.Sig = "crash"
		f.Expected = "the call returns (rows or an error value)"
		f.Observed = why + ": " + reason
		m.mu.Lock()
		m.crashes = append(m.crashes, *f)
		m.mu.Unlock()
		from = u
		skip[u] = append(skip[u], idx)
	}
}

func hangLimit() time.Duration {
	if s := os.Getenv("VERIF_HANG_S"); s != "" {
		if v, err := strconv.Atoi(s); err == nil && v > 0 {
			return time.Duration(v) * time.Second
		}
	}
	return 60 * time.Second
}

func firstLines(s string, n int) string {
	lines := strings.Split(strings.TrimSpace(s), "\n")
	if len(lines) > n {
		lines = lines[:n]
	}
	return strings.Join(lines, " / ")
}

type limitWriter struct {
	w *bytes.Buffer
	n int
}

func (l *limitWriter) Write(p []byte) (int, error) {
	if l.w.Len() < l.n {
		k := l.n - l.w.Len()
		if k > len(p) {
			k = len(p)
		}
		l.w.Write(p[:k])
	}
	return len(p), nil
}

// reduceAndConfirm runs the reduction of ordinary failures in a child process
// (so that a case that kills the process cannot take the supervisor down).
func reduceAndConfirm(id string, fails []Failure) (roots, unconfirmed []Failure) {
	if len(fails) == 0 {
		return nil, nil
	}
	// keep the earliest few failures per (leg, signature): simplest first
	// per (leg, signature): the earliest few (simplest first) plus an evenly
	// spread selection, so that one prolific defect does not hide another
	groups := map[string][]Failure{}
	var order []string
	for _, f := range fails {
		k := f.Leg + "|" + f.Sig
		if _, ok := groups[k]; !ok {
			order = append(order, k)
		}
		groups[k] = append(groups[k], f)
	}
	var pick []Failure
	for _, k := range order {
		g := groups[k]
		used := map[int]bool{}
		for i := 0; i < len(g) && i < 6; i++ {
			used[i] = true
		}
		for i := 0; i < 18; i++ {
			used[i*len(g)/18] = true
		}
		for i := range g {
			if used[i] {
				pick = append(pick, g[i])
			}
		}
	}
	in, _ := json.Marshal(pick)
	cmd := exec.Command(os.Args[0], "reduce", id)
	cmd.Stdin = bytes.NewReader(in)
	cmd.Env = append(os.Environ(), "GOTRACEBACK=single")
	var out bytes.Buffer
	cmd.Stdout = &out
	cmd.Stderr = os.Stderr
	cmd.SysProcAttr = &syscall.SysProcAttr{}
	if err := cmd.Run(); err != nil {
		// reduction itself crashed: report the unreduced failures
		return pick, nil
	}
	var res struct {
		Roots       []Failure
		Unconfirmed []Failure
	}
	if err := json.Unmarshal(out.Bytes(), &res); err != nil {
		return pick, nil
	}
	return res.Roots, res.Unconfirmed
}

// RunReduce is the child side of reduceAndConfirm.
func RunReduce(id string) int {
	c := Lookup(id)
	if c == nil {
		return 2
	}
	var fails []Failure
	if err := json.NewDecoder(os.Stdin).Decode(&fails); err != nil {
		return 2
	}
	var res struct {
		Roots       []Failure
		Unconfirmed []Failure
	}
	red, _ := c.(Reducer)
	seen := map[string]bool{}
	for _, f := range fails {
		// confirm: must fail on each of 5 replays
		ok := true
		for i := 0; i < 5 && !c.Info().SkipConfirm; i++ {
			if g := c.Replay(f.Data); g == nil {
				ok = false
				break
			}
		}
		if !ok {
			res.Unconfirmed = append(res.Unconfirmed, f)
			continue
		}
		cur := f
		if red != nil {
			for steps := 0; steps < 200; steps++ {
				progressed := false
				for _, s := range red.Simplify(cur.Data) {
					g := c.Replay(s)
					if g != nil && g.Leg == cur.Leg && g.Sig == cur.Sig {
						cur = *g
						progressed = true
						break
					}
				}
				if !progressed {
					break
				}
			}
		}
		k := cur.Leg + "\x00" + cur.Case
		if !seen[k] {
			seen[k] = true
			res.Roots = append(res.Roots, cur)
		}
	}
	json.NewEncoder(os.Stdout).Encode(&res)
	return 0
}

// RunReplay re-judges a replay file and prints the verdict.
func RunReplay(path string) int {
	b, err := os.ReadFile(path)
	if err != nil {
		fmt.Fprintln(os.Stderr, err)
		return 2
	}
	var f Failure
	if err := json.Unmarshal(b, &f); err != nil {
		fmt.Fprintln(os.Stderr, err)
		return 2
	}
	c := Lookup(f.Property)
	if c == nil {
		fmt.Fprintf(os.Stderr, "unknown property %q\n", f.Property)
		return 2
	}
	g := c.Replay(f.Data)
	if g == nil {
		fmt.Printf("PASS property=%s case: %s\n", f.Property, f.Case)
		return 0
	}
	fmt.Printf("VIOLATION property=%s replay=%s\n  leg=%s sig=%s\n  case: %s\n  expected: %s\n  observed: %s\n", f.Property, path, g.Leg, g.Sig, g.Case, g.Expected, g.Observed)
	return 1
}
