package ref

import (
	"encoding/json"
	"strconv"
	"strings"
	"unicode/utf8"
)

// Expr is the reference expression AST. One struct so that it marshals to
// JSON without ceremony (replay files carry it).
//
// K: "key" "value" | "s" "i" "f" "b" literals | "bin" (Op, A0, A1) |
// "not" (A0) | "in" (A0 in (A1..)) | "inx" (A0 in A1, A1 list-valued) |
// "btw" (A0 between A1 and A2) | "call" (Op=name, A=args) |
// "idx" (A0 [ A1 ]) | "name" (S = alias).
type Expr struct {
	K  string  `json:"k"`
	Op string  `json:"op,omitempty"`
	S  string  `json:"s,omitempty"`
	I  int64   `json:"i,omitempty"`
	F  float64 `json:"f,omitempty"`
	B  bool    `json:"b,omitempty"`
	A  []*Expr `json:"a,omitempty"`
}

// A literal that is no valid UTF-8 travels through JSON as bytes (JSON text
// would replace the invalid bytes and a replay would run another expression).
type exprWire struct {
	K  string  `json:"k"`
	Op string  `json:"op,omitempty"`
	S  string  `json:"s,omitempty"`
	SB []byte  `json:"sb,omitempty"`
	I  int64   `json:"i,omitempty"`
	F  float64 `json:"f,omitempty"`
	B  bool    `json:"b,omitempty"`
	A  []*Expr `json:"a,omitempty"`
}

func (e Expr) MarshalJSON() ([]byte, error) {
	w := exprWire{K: e.K, Op: e.Op, S: e.S, I: e.I, F: e.F, B: e.B, A: e.A}
	if !utf8.ValidString(e.S) {
		w.S, w.SB = strconv.QuoteToASCII(e.S), []byte(e.S)
	}
	return json.Marshal(w)
}

func (e *Expr) UnmarshalJSON(b []byte) error {
	var w exprWire
	if err := json.Unmarshal(b, &w); err != nil {
		return err
	}
	*e = Expr{K: w.K, Op: w.Op, S: w.S, I: w.I, F: w.F, B: w.B, A: w.A}
	if w.SB != nil {
		e.S = string(w.SB)
	}
	return nil
}

func Key() *Expr           { return &Expr{K: "key"} }
func Value() *Expr         { return &Expr{K: "value"} }
func S(s string) *Expr     { return &Expr{K: "s", S: s} }
func N(i int64) *Expr      { return &Expr{K: "i", I: i} }
func Fl(f float64) *Expr   { return &Expr{K: "f", F: f} }
func Bl(b bool) *Expr      { return &Expr{K: "b", B: b} }

// FlText is the float literal written as text (digits beyond the int64 range,
// "1.50", "007.0"): its value is what ParseFloat reads from that text.
func FlText(text string) *Expr {
	f, _ := strconv.ParseFloat(text, 64)
	return &Expr{K: "f", F: f, S: text}
}
func Name(s string) *Expr  { return &Expr{K: "name", S: s} }
func Not(a *Expr) *Expr    { return &Expr{K: "not", A: []*Expr{a}} }
func Bin(op string, a, b *Expr) *Expr {
	return &Expr{K: "bin", Op: op, A: []*Expr{a, b}}
}
func In(a *Expr, items ...*Expr) *Expr {
	return &Expr{K: "in", A: append([]*Expr{a}, items...)}
}
func InX(a, l *Expr) *Expr { return &Expr{K: "inx", A: []*Expr{a, l}} }
func Btw(a, lo, hi *Expr) *Expr {
	return &Expr{K: "btw", A: []*Expr{a, lo, hi}}
}
func Call(name string, args ...*Expr) *Expr {
	return &Expr{K: "call", Op: name, A: args}
}
func Idx(a, i *Expr) *Expr { return &Expr{K: "idx", A: []*Expr{a, i}} }

// Clone is a deep copy.
func (e *Expr) Clone() *Expr {
	if e == nil {
		return nil
	}
	c := *e
	c.A = make([]*Expr, len(e.A))
	for i, a := range e.A {
		c.A[i] = a.Clone()
	}
	return &c
}

// Size is the number of nodes.
func (e *Expr) Size() int {
	n := 1
	for _, a := range e.A {
		n += a.Size()
	}
	return n
}

// Subst replaces every alias reference by a clone of its definition.
func (e *Expr) Subst(defs map[string]*Expr) *Expr {
	if e.K == "name" {
		if d, ok := defs[e.S]; ok {
			return d.Clone().Subst(defs)
		}
		return e.Clone()
	}
	c := *e
	c.A = make([]*Expr, len(e.A))
	for i, a := range e.A {
		c.A[i] = a.Subst(defs)
	}
	return &c
}

// ---- rendering -----------------------------------------------------------

// Prec is the documented binding strength of a binary operator (README /
// property C15): | or < & and < comparisons, in, between < + - < * /.
func Prec(op string) int {
	switch strings.ToLower(op) {
	case "|", "or":
		return 1
	case "&", "and":
		return 2
	case "=", "!=", "^=", "~=", ">", ">=", "<", "<=", "in", "between":
		return 3
	case "+", "-":
		return 4
	case "*", "/":
		return 5
	}
	return 0
}

// Style controls rendering.
type Style struct {
	Full    bool // parenthesise every binary sub-expression (else: minimal)
	Upper   bool // upper-case word operators / keywords inside expressions
	Mixed   bool // Capitalised word operators / keywords
	Extra   int  // 1-based pre-order index of a sub-tree to wrap in a redundant pair of parentheses (0: none)
	Tight   bool // no spaces around symbolic operators
	Quote   byte // quote character for strings; 0 means '
	WrapTop bool // parenthesise the top-level expression too
	ctr     *int
}

func fmtFloatLit(f float64) string {
	s := strconv.FormatFloat(f, 'f', -1, 64)
	if !strings.Contains(s, ".") {
		s += ".0"
	}
	return s
}

func (e *Expr) prec() int {
	switch e.K {
	case "bin":
		return Prec(e.Op)
	case "in", "inx", "btw":
		return 3
	}
	return 9
}

func (e *Expr) isWordOp() bool {
	return e.K == "bin" && (strings.EqualFold(e.Op, "and") || strings.EqualFold(e.Op, "or"))
}

// Render renders with full parentheses (the safe default used by the
// semantic checks, so that they do not depend on precedence).
func (e *Expr) Render() string { return e.RenderStyle(Style{Full: true}) }

func (e *Expr) RenderStyle(st Style) string {
	ctr := 0
	st.ctr = &ctr
	s := e.render(st, 0, false)
	if st.WrapTop {
		return "(" + s + ")"
	}
	return s
}

// render: parent precedence pp; right = this node is the right operand of a
// left-associative parent of precedence pp.
func (e *Expr) render(st Style, pp int, right bool) string {
	if st.ctr != nil && st.Extra > 0 {
		*st.ctr++
		if *st.ctr == st.Extra {
			st2 := st
			st2.Extra = 0
			return "(" + e.render(st2, 0, false) + ")"
		}
	}
	q := st.Quote
	if q == 0 {
		q = '\''
	}
	kw := func(w string) string {
		if st.Upper {
			return strings.ToUpper(w)
		}
		if st.Mixed {
			return strings.ToUpper(w[:1]) + w[1:]
		}
		return w
	}
	wrap := func(s string, p int) string {
		if st.Full {
			if pp > 0 {
				return "(" + s + ")"
			}
			return s
		}
		if p < pp || (p == pp && right) {
			return "(" + s + ")"
		}
		return s
	}
	switch e.K {
	case "key":
		return kw("key")
	case "value":
		return kw("value")
	case "s":
		return string(q) + e.S + string(q)
	case "i":
		return strconv.FormatInt(e.I, 10)
	case "f":
		if e.S != "" {
			return e.S // (a float literal written in a particular way, see FlText)
		}
		return fmtFloatLit(e.F)
	case "b":
		if e.B {
			return kw("true")
		}
		return kw("false")
	case "name":
		return QuoteName(e.S)
	case "not":
		a := e.A[0]
		inner := a.render(st, 0, false)
		// the operand of ! is a unary expression: anything that is not
		// primary needs parentheses
		if a.prec() < 9 || st.Full {
			return "!(" + inner + ")"
		}
		return "!" + inner
	case "bin":
		p := Prec(e.Op)
		l := e.A[0].render(st, p, false)
		r := e.A[1].render(st, p, true)
		op := e.Op
		var s string
		if e.isWordOp() {
			s = l + " " + kw(op) + " " + r
		} else if st.Tight {
			s = l + op + r
		} else {
			s = l + " " + op + " " + r
		}
		return wrap(s, p)
	case "in":
		items := make([]string, len(e.A)-1)
		for i, a := range e.A[1:] {
			items[i] = a.render(st, 0, false)
		}
		s := e.A[0].render(st, 3, false) + " " + kw("in") + " (" + strings.Join(items, ", ") + ")"
		return wrap(s, 3)
	case "inx":
		l := e.A[0].render(st, 3, false)
		rst := st
		if st.ctr != nil && st.Extra > 0 && *st.ctr+1 == st.Extra {
			// (a pair of parentheses around the right side would turn it into a one-item list)
			rst.Extra = 0
		}
		s := l + " " + kw("in") + " " + e.A[1].render(rst, 3, true)
		return wrap(s, 3)
	case "btw":
		// bounds are parsed at precedence > comparison level
		s := e.A[0].render(st, 3, false) + " " + kw("between") + " " +
			e.A[1].render(st, 3, true) + " " + kw("and") + " " + e.A[2].render(st, 3, true)
		return wrap(s, 3)
	case "call":
		args := make([]string, len(e.A))
		for i, a := range e.A {
			args[i] = a.render(st, 0, false)
		}
		return e.Op + "(" + strings.Join(args, ", ") + ")"
	case "idx":
		return e.A[0].render(st, 9, false) + "[" + e.A[1].render(st, 0, false) + "]"
	}
	return "?"
}

// QuoteName renders a field name: bare when it is a plain lower-case word,
// inside back quotes otherwise.
func QuoteName(n string) string {
	plain := n != ""
	for i := 0; i < len(n); i++ {
		c := n[i]
		if !(c == '_' || c >= 'a' && c <= 'z' || i > 0 && c >= '0' && c <= '9') {
			plain = false
		}
	}
	switch n {
	case "key", "value", "select", "where", "and", "or", "in", "between", "as", "limit", "order", "by", "asc", "desc", "group", "true", "false", "put", "remove", "delete", "explain":
		plain = false // reserved words
	}
	if plain {
		return n
	}
	return "`" + n + "`"
}
