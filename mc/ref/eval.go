package ref

import (
	"bytes"
	"encoding/json"
	"errors"
	"math"
	"regexp"
	"strconv"
	"strings"
	"unicode/utf8"
)

// ErrDomain marks an evaluation that the documentation does not define (or
// defines as an error): the case is out of the reference's domain and is not
// judged.
type ErrDomain struct{ Why string }

func (e *ErrDomain) Error() string { return "not evaluable: " + e.Why }

func dom(why string) error {
	DomainStats[why]++
	return &ErrDomain{why}
}

// DomainStats counts, per reason, how often the reference declared an
// evaluation undefined (workers are single-threaded). The checks publish it in
// their evidence so that a generator element that is never judged shows up.
var DomainStats = map[string]int64{}

// IsDomain reports whether err is an out-of-domain marker.
func IsDomain(err error) bool {
	var d *ErrDomain
	return errors.As(err, &d)
}

// Env is the row an expression is evaluated on.
type Env struct {
	Key, Value string
	Alias      map[string]*Expr
}

var (
	reInt   = regexp.MustCompile(`^-?[0-9]+$`)
	reFloat = regexp.MustCompile(`^-?[0-9]+(\.[0-9]+)?$`)
)

// ParseIntText: decimal integer text per the reference's domain.
func ParseIntText(s string) (int64, bool) {
	if !reInt.MatchString(s) {
		return 0, false
	}
	i, err := strconv.ParseInt(s, 10, 64)
	return i, err == nil
}

// ParseFloatText: decimal float text per the reference's domain.
func ParseFloatText(s string) (float64, bool) {
	if !reFloat.MatchString(s) {
		return 0, false
	}
	f, err := strconv.ParseFloat(s, 64)
	return f, err == nil
}

// weird reports texts on which the engine's strconv-based readers and the
// reference's plain-decimal readers could legitimately disagree (signs,
// exponents, hex, inf/nan, underscores, surrounding blanks). Conversions of
// such texts are out of domain.
func weird(s string) bool {
	if reFloat.MatchString(s) {
		return false
	}
	if _, err := strconv.ParseFloat(s, 64); err == nil {
		return true
	}
	if _, err := strconv.ParseInt(s, 10, 64); err == nil {
		return true
	}
	return false
}

// TypeOf is the static type under the reference typing rules:
// 'T','N','B','L','J', or 0 when ill-typed/unknown.
func TypeOf(e *Expr, alias map[string]*Expr) byte {
	switch e.K {
	case "key", "value", "s":
		return 'T'
	case "i", "f":
		return 'N'
	case "b", "not", "in", "inx", "btw":
		return 'B'
	case "name":
		if d, ok := alias[e.S]; ok {
			return TypeOf(d, alias)
		}
		return 0
	case "bin":
		switch strings.ToLower(e.Op) {
		case "+":
			return TypeOf(e.A[0], alias)
		case "-", "*", "/":
			return 'N'
		}
		return 'B'
	case "idx":
		return 'T' // dynamically typed; the engine declares text
	case "call":
		switch strings.ToLower(e.Op) {
		case "lower", "upper", "str", "substr", "join":
			return 'T'
		case "int", "float", "len", "strlen", "l2_distance", "cosine_distance":
			return 'N'
		case "is_int", "is_float":
			return 'B'
		case "split", "list", "int_list", "float_list", "ilist", "flist":
			return 'L'
		case "json":
			return 'J'
		}
	}
	return 0
}

// Eval evaluates e on env. A *ErrDomain error means "not defined by the
// documentation"; no other error is returned.
func Eval(e *Expr, env *Env) (Val, error) {
	v, err := evalRec(e, env)
	if err == nil && hasLooseNumber(v) {
		return Val{}, dom("numeric text held by list(): its representation is not documented")
	}
	return v, err
}

// hasLooseNumber: the value is, or holds, numeric text that went through list()
// (kind 'U'): list() may keep it as text or read it as a number. Only what does
// not depend on that choice is defined: float() / int() of such an element, the
// length of the list.
func hasLooseNumber(v Val) bool {
	if v.K == 'U' {
		return true
	}
	for _, x := range v.L {
		if hasLooseNumber(x) {
			return true
		}
	}
	for _, x := range v.J {
		if hasLooseNumber(x) {
			return true
		}
	}
	return false
}

func evalRec(e *Expr, env *Env) (Val, error) {
	switch e.K {
	case "key":
		return T(env.Key), nil
	case "value":
		return T(env.Value), nil
	case "s":
		return T(e.S), nil
	case "i":
		return I(e.I), nil
	case "f":
		return F(e.F), nil
	case "b":
		return Bo(e.B), nil
	case "name":
		d, ok := env.Alias[e.S]
		if !ok {
			return Val{}, dom("unknown name " + e.S)
		}
		return evalRec(d, env)
	case "not":
		v, err := evalRec(e.A[0], env)
		if err != nil {
			return v, err
		}
		if v.K != 'B' {
			return v, dom("! on non-boolean")
		}
		return Bo(!v.B), nil
	case "bin":
		return evalBin(e, env)
	case "in":
		l, err := evalRec(e.A[0], env)
		if err != nil {
			return l, err
		}
		found := false
		for _, it := range e.A[1:] {
			r, err := evalRec(it, env)
			if err != nil {
				return r, err
			}
			eq, err := equal(l, r)
			if err != nil {
				return Val{}, err
			}
			if eq {
				found = true
			}
		}
		return Bo(found), nil
	case "inx":
		l, err := evalRec(e.A[0], env)
		if err != nil {
			return l, err
		}
		r, err := evalRec(e.A[1], env)
		if err != nil {
			return r, err
		}
		if r.K != 'L' {
			return r, dom("in over non-list")
		}
		found := false
		for _, it := range r.L {
			eq, err := equal(l, it)
			if err != nil {
				return Val{}, err
			}
			if eq {
				found = true
			}
		}
		return Bo(found), nil
	case "btw":
		x, err := evalRec(e.A[0], env)
		if err != nil {
			return x, err
		}
		lo, err := evalRec(e.A[1], env)
		if err != nil {
			return lo, err
		}
		hi, err := evalRec(e.A[2], env)
		if err != nil {
			return hi, err
		}
		c, err := compare(lo, hi)
		if err != nil {
			return Val{}, err
		}
		if c > 0 {
			return Val{}, dom("between with lower > upper")
		}
		c1, err := compare(x, lo)
		if err != nil {
			return Val{}, err
		}
		c2, err := compare(x, hi)
		if err != nil {
			return Val{}, err
		}
		return Bo(c1 >= 0 && c2 <= 0), nil
	case "call":
		return evalCall(e, env)
	case "idx":
		a, err := evalRec(e.A[0], env)
		if err != nil {
			return a, err
		}
		ix := e.A[1]
		switch ix.K {
		case "i":
			if a.K != 'L' {
				return a, dom("[n] on non-list")
			}
			if ix.I < 0 || int(ix.I) >= len(a.L) {
				return a, dom("[n] out of range")
			}
			return a.L[ix.I], nil
		case "s":
			if a.K != 'J' {
				return a, dom("[name] on non-object")
			}
			m, ok := a.J[ix.S]
			if !ok {
				return a, dom("[name] missing member")
			}
			return m, nil
		}
		return a, dom("bad index")
	}
	return Val{}, dom("unknown node " + e.K)
}

func equal(a, b Val) (bool, error) {
	switch {
	case a.K == 'T' && b.K == 'T':
		return a.T == b.T, nil
	case a.IsNum() && b.IsNum():
		if a.K == 'I' && b.K == 'I' {
			return a.I == b.I, nil
		}
		return a.Num() == b.Num(), nil
	case a.K == 'B' && b.K == 'B':
		return a.B == b.B, nil
	}
	return false, dom("= on mixed kinds")
}

func compare(a, b Val) (int, error) {
	switch {
	case a.K == 'T' && b.K == 'T':
		return bytes.Compare([]byte(a.T), []byte(b.T)), nil
	case a.IsNum() && b.IsNum():
		if a.K == 'I' && b.K == 'I' {
			switch {
			case a.I < b.I:
				return -1, nil
			case a.I > b.I:
				return 1, nil
			}
			return 0, nil
		}
		x, y := a.Num(), b.Num()
		switch {
		case x < y:
			return -1, nil
		case x > y:
			return 1, nil
		}
		return 0, nil
	}
	return 0, dom("ordering on mixed kinds")
}

func evalBin(e *Expr, env *Env) (Val, error) {
	op := strings.ToLower(e.Op)
	l, err := evalRec(e.A[0], env)
	if err != nil {
		return l, err
	}
	r, err := evalRec(e.A[1], env)
	if err != nil {
		return r, err
	}
	switch op {
	case "&", "and", "|", "or":
		// strict: both operands must be defined booleans
		if l.K != 'B' || r.K != 'B' {
			return Val{}, dom("logical operator on non-boolean")
		}
		if op == "&" || op == "and" {
			return Bo(l.B && r.B), nil
		}
		return Bo(l.B || r.B), nil
	case "=", "!=":
		eq, err := equal(l, r)
		if err != nil {
			return Val{}, err
		}
		return Bo(eq == (op == "=")), nil
	case "^=":
		if l.K != 'T' || r.K != 'T' {
			return Val{}, dom("^= on non-text")
		}
		return Bo(strings.HasPrefix(l.T, r.T)), nil
	case "~=":
		if l.K != 'T' || r.K != 'T' {
			return Val{}, dom("~= on non-text")
		}
		re, err := regexp.Compile(r.T)
		if err != nil {
			return Val{}, dom("bad regexp")
		}
		return Bo(re.MatchString(l.T)), nil
	case ">", ">=", "<", "<=":
		c, err := compare(l, r)
		if err != nil {
			return Val{}, err
		}
		switch op {
		case ">":
			return Bo(c > 0), nil
		case ">=":
			return Bo(c >= 0), nil
		case "<":
			return Bo(c < 0), nil
		}
		return Bo(c <= 0), nil
	case "+":
		if l.K == 'T' && r.K == 'T' {
			return T(l.T + r.T), nil
		}
		fallthrough
	case "-", "*", "/":
		if !l.IsNum() || !r.IsNum() {
			return Val{}, dom("arithmetic on non-number")
		}
		if l.K == 'I' && r.K == 'I' {
			a, b := l.I, r.I
			switch op {
			case "+":
				if (b > 0 && a > math.MaxInt64-b) || (b < 0 && a < math.MinInt64-b) {
					return Val{}, dom("overflow")
				}
				return I(a + b), nil
			case "-":
				if (b < 0 && a > math.MaxInt64+b) || (b > 0 && a < math.MinInt64+b) {
					return Val{}, dom("overflow")
				}
				return I(a - b), nil
			case "*":
				if a != 0 && b != 0 {
					p := a * b
					if p/b != a || (a == -1 && b == math.MinInt64) || (b == -1 && a == math.MinInt64) {
						return Val{}, dom("overflow")
					}
				}
				return I(a * b), nil
			case "/":
				if b == 0 {
					return Val{}, dom("division by zero")
				}
				if a%b != 0 {
					return Val{}, dom("inexact integer division")
				}
				return I(a / b), nil
			}
		}
		x, y := l.Num(), r.Num()
		var z float64
		switch op {
		case "+":
			z = x + y
		case "-":
			z = x - y
		case "*":
			z = x * y
		case "/":
			if y == 0 {
				return Val{}, dom("division by zero")
			}
			z = x / y
		}
		if math.IsInf(z, 0) || math.IsNaN(z) {
			return Val{}, dom("float overflow")
		}
		return F(z), nil
	}
	return Val{}, dom("unknown operator " + e.Op)
}

func asText(v Val) (string, error) {
	switch v.K {
	case 'T':
		return v.T, nil
	case 'I':
		return strconv.FormatInt(v.I, 10), nil
	}
	return "", dom("no documented text rendering")
}

func asciiUpper(s string) string {
	b := []byte(s)
	for i, c := range b {
		if c >= 'a' && c <= 'z' {
			b[i] = c - 32
		}
	}
	return string(b)
}

func asciiLower(s string) string {
	b := []byte(s)
	for i, c := range b {
		if c >= 'A' && c <= 'Z' {
			b[i] = c + 32
		}
	}
	return string(b)
}

func isASCII(s string) bool {
	for i := 0; i < len(s); i++ {
		if s[i] >= 0x80 {
			return false
		}
	}
	return true
}

func toFloatVec(v Val) ([]float64, error) {
	if v.K != 'L' {
		return nil, dom("vector argument is not a list")
	}
	out := make([]float64, len(v.L))
	for i, e := range v.L {
		switch e.K {
		case 'I', 'F':
			out[i] = e.Num()
		case 'T':
			f, ok := ParseFloatText(e.T)
			if !ok {
				return nil, dom("vector element is not a number")
			}
			out[i] = f
		default:
			return nil, dom("vector element is not a number")
		}
	}
	return out, nil
}

func evalCall(e *Expr, env *Env) (Val, error) {
	name := strings.ToLower(e.Op)
	args := make([]Val, len(e.A))
	for i, a := range e.A {
		v, err := evalRec(a, env)
		if err != nil {
			return v, err
		}
		args[i] = v
	}
	need := func(n int) error {
		if len(args) != n {
			return dom("wrong argument count")
		}
		return nil
	}
	switch name {
	case "upper", "lower":
		if err := need(1); err != nil {
			return Val{}, err
		}
		// ASCII letters are mapped; bytes that are no valid UTF-8 are data and
		// stay as they are; what happens to letters beyond ASCII is not documented
		if args[0].K != 'T' || !asciiOrInvalid(args[0].T) {
			return Val{}, dom(name + " of non-ASCII-text")
		}
		if name == "upper" {
			return T(asciiUpper(args[0].T)), nil
		}
		return T(asciiLower(args[0].T)), nil
	case "int":
		if err := need(1); err != nil {
			return Val{}, err
		}
		switch args[0].K {
		case 'I':
			return args[0], nil
		case 'T', 'U':
			if i, ok := ParseIntText(args[0].T); ok {
				return I(i), nil
			}
		}
		return Val{}, dom("int of non-integer")
	case "float":
		if err := need(1); err != nil {
			return Val{}, err
		}
		switch args[0].K {
		case 'F':
			return args[0], nil
		case 'I':
			return F(float64(args[0].I)), nil
		case 'T', 'U':
			if f, ok := ParseFloatText(args[0].T); ok {
				return F(f), nil
			}
		}
		return Val{}, dom("float of non-number")
	case "str":
		if err := need(1); err != nil {
			return Val{}, err
		}
		s, err := asText(args[0])
		if err != nil {
			return Val{}, err
		}
		return T(s), nil
	case "substr":
		// "return substring of value from start position to end position":
		// bytes [start, end), positions beyond the text clipped to its end;
		// negative or reversed positions are left undefined
		if err := need(3); err != nil {
			return Val{}, err
		}
		s, err := asText(args[0])
		if err != nil {
			return Val{}, err
		}
		if args[1].K != 'I' || args[2].K != 'I' {
			return Val{}, dom("substr positions are not integers")
		}
		a, b := args[1].I, args[2].I
		if a < 0 || b < a {
			return Val{}, dom("substr with negative or reversed positions")
		}
		if a > int64(len(s)) {
			a = int64(len(s))
		}
		if b > int64(len(s)) {
			b = int64(len(s))
		}
		return T(s[a:b]), nil
	case "strlen":
		if err := need(1); err != nil {
			return Val{}, err
		}
		s, err := asText(args[0])
		if err != nil {
			return Val{}, err
		}
		return I(int64(len(s))), nil
	case "is_int":
		if err := need(1); err != nil {
			return Val{}, err
		}
		switch args[0].K {
		case 'I':
			return Bo(true), nil
		case 'T':
			if weird(args[0].T) {
				return Val{}, dom("is_int of unusual numeric text")
			}
			_, ok := ParseIntText(args[0].T)
			return Bo(ok), nil
		}
		return Val{}, dom("is_int of non-text")
	case "is_float":
		if err := need(1); err != nil {
			return Val{}, err
		}
		switch args[0].K {
		case 'F':
			return Bo(true), nil
		case 'T':
			if weird(args[0].T) {
				return Val{}, dom("is_float of unusual numeric text")
			}
			_, ok := ParseFloatText(args[0].T)
			return Bo(ok), nil
		}
		return Val{}, dom("is_float of non-text")
	case "split":
		if err := need(2); err != nil {
			return Val{}, err
		}
		if args[0].K != 'T' || args[1].K != 'T' || args[1].T == "" {
			return Val{}, dom("split arguments")
		}
		parts := strings.Split(args[0].T, args[1].T)
		l := make([]Val, len(parts))
		for i, p := range parts {
			l[i] = T(p)
		}
		return List(l), nil
	case "join":
		if len(args) < 2 {
			return Val{}, dom("join needs a separator and at least one part")
		}
		if args[0].K != 'T' {
			return Val{}, dom("join separator")
		}
		parts := make([]string, len(args)-1)
		for i, a := range args[1:] {
			s, err := asText(a)
			if err != nil {
				return Val{}, err
			}
			parts[i] = s
		}
		return T(strings.Join(parts, args[0].T)), nil
	case "len":
		if err := need(1); err != nil {
			return Val{}, err
		}
		if args[0].K != 'L' {
			return Val{}, dom("len of non-list")
		}
		return I(int64(len(args[0].L))), nil
	case "list":
		if len(args) == 0 {
			return Val{}, dom("empty list()")
		}
		k := args[0].K
		if k == 'T' {
			// a list of text; text that reads as a number is left undefined
			// (the engine's list() types its elements by their reading)
			for _, a := range args {
				if a.K != 'T' {
					return Val{}, dom("list() of mixed kinds")
				}
				if _, ok := ParseFloatText(a.T); ok {
					// numeric text: every argument must be such text, of one kind
					// (all integers or all with a fraction); the list holds them
					// in order, as text or as numbers (kind 'U')
					_, firstInt := ParseIntText(args[0].T)
					us := make([]Val, len(args))
					for i, b := range args {
						if b.K != 'T' || weird(b.T) {
							return Val{}, dom("list() of mixed kinds")
						}
						_, isF := ParseFloatText(b.T)
						_, isI := ParseIntText(b.T)
						if !isF || isI != firstInt {
							return Val{}, dom("list() of mixed kinds")
						}
						us[i] = Val{K: 'U', T: b.T}
					}
					return List(us), nil
				}
				if _, err := strconv.ParseFloat(strings.TrimSpace(a.T), 64); err == nil {
					return Val{}, dom("list() of text some number syntax accepts (+5, 1e3, inf ...)")
				}
			}
			return List(append([]Val(nil), args...)), nil
		}
		if k != 'I' && k != 'F' {
			return Val{}, dom("list() of non-numbers")
		}
		for _, a := range args {
			if a.K != k {
				return Val{}, dom("list() of mixed kinds")
			}
		}
		return List(append([]Val(nil), args...)), nil
	case "int_list", "ilist":
		if len(args) == 0 {
			return Val{}, dom("empty list")
		}
		for _, a := range args {
			if a.K != 'I' {
				return Val{}, dom("int_list of non-int")
			}
		}
		return List(append([]Val(nil), args...)), nil
	case "float_list", "flist":
		if len(args) == 0 {
			return Val{}, dom("empty list")
		}
		for _, a := range args {
			if a.K != 'F' {
				return Val{}, dom("float_list of non-float")
			}
		}
		return List(append([]Val(nil), args...)), nil
	case "l2_distance", "cosine_distance":
		if err := need(2); err != nil {
			return Val{}, err
		}
		a, err := toFloatVec(args[0])
		if err != nil {
			return Val{}, err
		}
		b, err := toFloatVec(args[1])
		if err != nil {
			return Val{}, err
		}
		if len(a) != len(b) {
			// documented refusal: represented as a distinguished domain error
			return Val{}, &ErrDomain{Why: RefusalDifferentLengths}
		}
		if name == "l2_distance" {
			t := 0.0
			for i := range a {
				d := a[i] - b[i]
				t += d * d
			}
			return F(math.Sqrt(t)), nil
		}
		var ab, aa, bb float64
		for i := range a {
			ab += a[i] * b[i]
			aa += a[i] * a[i]
			bb += b[i] * b[i]
		}
		if aa == 0 || bb == 0 {
			return Val{}, dom("cosine of zero vector")
		}
		return F(1 - ab/(math.Sqrt(aa)*math.Sqrt(bb))), nil
	case "json":
		if err := need(1); err != nil {
			return Val{}, err
		}
		if args[0].K != 'T' {
			return Val{}, dom("json of non-text")
		}
		if !json.Valid([]byte(args[0].T)) {
			return Val{}, dom("json of text that is no JSON document")
		}
		var m map[string]any
		dec := json.NewDecoder(strings.NewReader(args[0].T))
		if err := dec.Decode(&m); err != nil || m == nil {
			return Val{}, dom("json of non-object text")
		}
		return fromJSON(m), nil
	}
	return Val{}, dom("function not in the reference: " + name)
}

// RefusalDifferentLengths marks the one *documented* refusal the reference
// knows: distance functions on vectors of different lengths must error.
const RefusalDifferentLengths = "REFUSE: vectors of different lengths"

// IsRefusal reports whether err is the documented different-length refusal.
func IsRefusal(err error) bool {
	var d *ErrDomain
	return errors.As(err, &d) && d.Why == RefusalDifferentLengths
}

func fromJSON(x any) Val {
	switch v := x.(type) {
	case nil:
		return Null()
	case string:
		return T(v)
	case float64:
		return F(v)
	case bool:
		return Bo(v)
	case []any:
		l := make([]Val, len(v))
		for i, e := range v {
			l[i] = fromJSON(e)
		}
		return List(l)
	case map[string]any:
		m := make(map[string]Val, len(v))
		for k, e := range v {
			m[k] = fromJSON(e)
		}
		return Val{K: 'J', J: m}
	}
	return Null()
}

// asciiOrInvalid: every byte of s is ASCII or part of no valid UTF-8 sequence.
func asciiOrInvalid(s string) bool {
	for i := 0; i < len(s); {
		r, n := utf8.DecodeRuneInString(s[i:])
		if r >= 0x80 && !(r == utf8.RuneError && n <= 1) {
			return false
		}
		i += n
	}
	return true
}
