// Package ref is the reference model: values, a canonical column form, an
// expression AST of its own, a renderer to query text and a strict evaluator
// written from README.md / spec.md. It never imports or calls kvql.
package ref

import (
	"fmt"
	"math"
	"reflect"
	"sort"
	"strconv"
	"strings"
)

// Val is a reference value. K: 'T' text, 'I' int, 'F' float, 'B' bool,
// 'L' list, 'J' json object, 'N' null.
type Val struct {
	K byte
	T string
	I int64
	F float64
	B bool
	L []Val
	J map[string]Val
}

func T(s string) Val    { return Val{K: 'T', T: s} }
func I(i int64) Val     { return Val{K: 'I', I: i} }
func F(f float64) Val   { return Val{K: 'F', F: f} }
func Bo(b bool) Val     { return Val{K: 'B', B: b} }
func List(l []Val) Val  { return Val{K: 'L', L: l} }
func Null() Val         { return Val{K: 'N'} }
func (v Val) IsNum() bool { return v.K == 'I' || v.K == 'F' }
func (v Val) Num() float64 {
	if v.K == 'I' {
		return float64(v.I)
	}
	return v.F
}

func fmtF(f float64) string {
	if math.IsNaN(f) {
		return "NaN"
	}
	return strconv.FormatFloat(f, 'g', -1, 64)
}

// Canon renders a reference value in the canonical column form.
func (v Val) Canon() string {
	switch v.K {
	case 'T':
		return "T:" + strconv.Quote(v.T)
	case 'I':
		return "I:" + strconv.FormatInt(v.I, 10)
	case 'F':
		return "F:" + fmtF(v.F)
	case 'B':
		if v.B {
			return "B:true"
		}
		return "B:false"
	case 'L':
		parts := make([]string, len(v.L))
		for i, e := range v.L {
			parts[i] = e.Canon()
		}
		return "L[" + strings.Join(parts, " ") + "]"
	case 'J':
		keys := make([]string, 0, len(v.J))
		for k := range v.J {
			keys = append(keys, k)
		}
		sort.Strings(keys)
		parts := make([]string, len(keys))
		for i, k := range keys {
			parts[i] = strconv.Quote(k) + "=" + v.J[k].Canon()
		}
		return "J{" + strings.Join(parts, " ") + "}"
	case 'N':
		return "N"
	}
	return "?"
}

// Canon renders an engine column (any Go value kvql may return) in the same
// canonical form. Unknown representations are rendered as ?<GoType> so that
// they never compare equal to a reference value.
func Canon(x any) string {
	switch v := x.(type) {
	case nil:
		return "N"
	case []byte:
		return "T:" + strconv.Quote(string(v))
	case string:
		return "T:" + strconv.Quote(v)
	case bool:
		if v {
			return "B:true"
		}
		return "B:false"
	case int:
		return "I:" + strconv.FormatInt(int64(v), 10)
	case int8:
		return "I:" + strconv.FormatInt(int64(v), 10)
	case int16:
		return "I:" + strconv.FormatInt(int64(v), 10)
	case int32:
		return "I:" + strconv.FormatInt(int64(v), 10)
	case int64:
		return "I:" + strconv.FormatInt(v, 10)
	case uint:
		return "I:" + strconv.FormatUint(uint64(v), 10)
	case uint16:
		return "I:" + strconv.FormatUint(uint64(v), 10)
	case uint32:
		return "I:" + strconv.FormatUint(uint64(v), 10)
	case uint64:
		return "I:" + strconv.FormatUint(v, 10)
	case float32:
		return "F:" + fmtF(float64(v))
	case float64:
		return "F:" + fmtF(v)
	case []any:
		parts := make([]string, len(v))
		for i, e := range v {
			parts[i] = Canon(e)
		}
		return "L[" + strings.Join(parts, " ") + "]"
	case map[string]any:
		return canonMap(v)
	}
	rv := reflect.ValueOf(x)
	switch rv.Kind() {
	case reflect.Map:
		if rv.Type().Key().Kind() == reflect.String {
			m := map[string]any{}
			it := rv.MapRange()
			for it.Next() {
				m[it.Key().String()] = it.Value().Interface()
			}
			return canonMap(m)
		}
	case reflect.Slice:
		parts := make([]string, rv.Len())
		for i := range parts {
			parts[i] = Canon(rv.Index(i).Interface())
		}
		return "L[" + strings.Join(parts, " ") + "]"
	}
	return fmt.Sprintf("?<%T>", x)
}

func canonMap(m map[string]any) string {
	keys := make([]string, 0, len(m))
	for k := range m {
		keys = append(keys, k)
	}
	sort.Strings(keys)
	parts := make([]string, len(keys))
	for i, k := range keys {
		parts[i] = strconv.Quote(k) + "=" + Canon(m[k])
	}
	return "J{" + strings.Join(parts, " ") + "}"
}

// CanonRow renders a row of engine columns.
func CanonRow(cols []any) string {
	parts := make([]string, len(cols))
	for i, c := range cols {
		parts[i] = Canon(c)
	}
	return strings.Join(parts, " | ")
}

// CanonVals renders a row of reference values.
func CanonVals(vs []Val) string {
	parts := make([]string, len(vs))
	for i, c := range vs {
		parts[i] = c.Canon()
	}
	return strings.Join(parts, " | ")
}
