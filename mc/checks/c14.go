package checks

import (
	"encoding/json"
	"fmt"
	"strings"

	"verif/mc/core"
	"verif/mc/drv"
	"verif/mc/store"
)

// C14 — statically wrong statements are rejected before any storage access.

type c14Case struct {
	Stmt   string `json:"stmt"`
	Mutant bool   `json:"mutant"` // true: contains exactly one static fault
	Fault  string `json:"fault,omitempty"`
}

func (c *c14Case) text() string {
	if c.Mutant {
		return c.Stmt + " | fault: " + c.Fault
	}
	return c.Stmt + " | well-typed"
}

type c14 struct{}

func init() { core.Register(c14{}) }

func (c14) Info() core.Info {
	return core.Info{
		ID:    "C14",
		Title: "Statically wrong statements are rejected before any storage access",
		Level: "exploration",
		Rule: "typed contexts C[.] with a hole of known type (WHERE root of select/delete, under !, either side of & | and or, comparison / prefix / regexp operands, arithmetic operands, function arguments, IN left and list elements, BETWEEN subject and bounds, select fields with and without alias, ORDER BY / GROUP BY source fields, PUT keys and values, REMOVE keys), composed to depth 2 (thorough: 3); each hole is filled (a) with every well-typed filler of the expected type => the statement must be ACCEPTED and its execution over numeric stores in both modes must never fail with an operand-type error; (b) with every single fault: a well-typed filler of a wrong type where the context types its operand, or a faulty atom (operator on unsupported operand types, non-Boolean under !, unknown function, wrong argument count, literal zero divisor, forbidden key/value keyword) => BuildPlan must fail and the storage call log must be empty. " +
			"Non-trivial: every mutant (one fault at one syntactic position). Distinct: the statement text." +
			" Also: aggregates at every operand position of a select field (under !, both sides of IN and BETWEEN, inside their lists) must be accepted and run (`Cannot find function` at execution is a static fault that waited for the first row); 90 rejected statements whose aggregate has a constant argument of the wrong type over every access path that opens a cursor on Init.",
		Assumptions: []string{
			"only faults that violate a documented typing rule unambiguously are generated; no argument-type faults for functions (README declares most parameters `any`)",
			"results of [..] indexing into JSON documents and into lists read from text are dynamically typed and excluded; elements of lists built from numbers (int_list, float_list, list of numbers) are numbers",
			"operand-type error class = messages containing 'wrong type', 'Invalid operator', 'not boolean', 'not string', 'not number'; conversion, division, regexp and BETWEEN-order errors are not of that class",
		},
	}
}

type c14Filler struct {
	text string
	typ  byte // B N T L J
}

func c14Good() []c14Filler {
	return []c14Filler{
		{"key = 'a'", 'B'}, {"is_int(value)", 'B'}, {"int(value) > 1", 'B'}, {"true", 'B'}, {"!(key ^= 'a')", 'B'}, {"key in ('a', 'b')", 'B'}, {"value between '1' and '3'", 'B'}, {"float(value) = 1.5", 'B'},
		{"1", 'N'}, {"int(value)", 'N'}, {"strlen(key) + 1", 'N'}, {"2.5", 'N'}, {"float(value) * 2", 'N'}, {"len(split(value, ','))", 'N'},
		// divisors that are literals below one, above one and non-literal zeros
		{"int(value) / 0.5", 'N'}, {"1 / 0.25", 'N'}, {"float(value) / 0.999", 'N'}, {"7 / 1.5", 'N'}, {"3 / (1 - 1 + 2)", 'N'},
		// elements of lists built from numbers are numbers
		{"list(1, 2)[0]", 'N'}, {"int_list(4, int(value))[1]", 'N'}, {"flist(0.5, float(value))[1] * 2", 'N'},
		{"'a'", 'T'}, {"key", 'T'}, {"upper(value)", 'T'}, {"key + 'x'", 'T'}, {"str(int(value))", 'T'}, {"join('-', key, value)", 'T'},
		{"split(value, ',')", 'L'}, {"list(1, 2)", 'L'},
		{"json(value)", 'J'},
	}
}

type c14Atom struct {
	text  string
	typ   byte // nominal type
	fault string
}

func c14FaultyAtoms() []c14Atom {
	return []c14Atom{
		{"key ^= 1", 'B', "^= with a number operand"},
		{"1 = 'a'", 'B', "= on number and text"},
		{"1 > 'a'", 'B', "> on number and text"},
		{"key ~= 1", 'B', "~= with a number operand"},
		{"true > false", 'B', "ordering on Booleans"},
		{"is_int(value) ^= true", 'B', "^= on Booleans"},
		{"is_int(value) ~= is_float(value)", 'B', "~= on Booleans"},
		{"true ^= (key = 'a')", 'B', "^= on Booleans"},
		{"1 ^= 2", 'B', "^= on numbers"},
		{"int(value) ~= strlen(key)", 'B', "~= on numbers"},
		{"(key = 'a') <= is_int(value)", 'B', "ordering on Booleans"},
		{"json(value) ^= json(value)", 'B', "^= on JSON"},
		{"split(value, ',') != split(key, ',')", 'B', "!= on lists"},
		{"!(1)", 'B', "! on a number"},
		{"!(key)", 'B', "! on text"},
		{"!(key ^= 1)", 'B', "fault under !"},
		{"is_int(value) & 1", 'B', "& with a number operand"},
		{"'a' | is_int(value)", 'B', "| with a text operand"},
		{"is_int(value) and key", 'B', "and with a text operand"},
		{"1 or is_int(value)", 'B', "or with a number operand"},
		{"key in ('a', 1)", 'B', "IN list element of another type"},
		{"key in (1)", 'B', "IN list of another type"},
		{"int(value) in (1, 'a')", 'B', "IN list element of another type"},
		{"key in ('a', 1 + 'a')", 'B', "fault inside an IN list"},
		{"key between 'a' and 1", 'B', "BETWEEN bound of another type"},
		{"key between 1 and 'b'", 'B', "BETWEEN bound of another type"},
		{"key between 'a' and ('b' + 1)", 'B', "fault inside a BETWEEN bound"},
		{"true between false and true", 'B', "BETWEEN on Booleans"},
		{"1 + 'a'", 'N', "+ on number and text"},
		{"key * 2", 'N', "* on text"},
		{"2 - 'a'", 'N', "- on text"},
		{"true + 1", 'N', "+ on a Boolean"},
		{"int(value) / 0", 'N', "literal zero divisor"},
		{"float(value) / 0.0", 'N', "literal zero divisor"},
		{"1.5 / (0)", 'N', "literal zero divisor"},
		{"(2 / 0.00) + 1", 'N', "literal zero divisor"},
		{"1 + (2 * 'a')", 'N', "fault inside arithmetic"},
		{"'a' + 1", 'T', "+ on text and number"},
		{"key + true", 'T', "+ on text and Boolean"},
		{"nosuchfunc(key)", 'T', "unknown function"},
		{"upper()", 'T', "wrong argument count"},
		{"upper(key, key)", 'T', "wrong argument count"},
		{"split(value)", 'L', "wrong argument count"},
		{"substr(key, 1)", 'T', "wrong argument count"},
		{"strlen()", 'N', "wrong argument count"},
		{"int(value, 1)", 'N', "wrong argument count"},
		{"is_int()", 'B', "wrong argument count"},
		{"strlen(1 + 'a')", 'N', "fault inside a function argument"},
		{"upper(key ^= 1)", 'T', "fault inside a function argument"},
		{"is_int(nosuchfunc(key))", 'B', "unknown function inside an argument"},
		{"split(value, ',') = split(value, ',')", 'B', "= on lists"},
		{"json(value) > json(value)", 'B', "ordering on JSON"},
		{"split(value, ',') ^= 'a'", 'B', "^= on a list"},
		{"json(value)['a'][true] = 'x'", 'B', "Boolean as a field index"},
		{"json(value)['a'][key = 'a'] = 'x'", 'B', "Boolean as a field index"},
		{"json(value)['a'][list(1)] = 'x'", 'B', "list as a field index"},
		{"list(1, 2)[0] = '1'", 'B', "= on a number element and text"},
		{"int_list(1, 2)[0] + 'a'", 'N', "+ on a number element and text"},
		{"'a' + flist(0.5)[0]", 'T', "+ on text and a number element"},
		{"list(1.5, 2)[1] ^= 'a'", 'B', "^= on a number element"},
		{"true in (true, false)", 'B', "IN on Booleans"},
		{"is_int(value) in (true)", 'B', "IN on Booleans"},
		{"(key = 'a') in (true, false)", 'B', "IN on Booleans"},
		{"json(value) in (json(value))", 'B', "IN on JSON"},
		{"split(value, ',') in (split(value, ','))", 'B', "IN on lists"},
	}
}

// context: a statement with one hole {} expecting a type (0: any type, only
// faulty atoms are used as mutants there); typed[Y]=true: filling with a
// well-typed expression of type Y is a fault.
type c14Ctx struct {
	tmpl  string
	want  byte   // expected type of the hole (0: any)
	wrong string // types that are a fault when placed in the hole
	inner bool   // usable as inner context when composing (expression context producing `prod`)
	prod  byte
}

func c14ExprCtxs() []c14Ctx {
	// expression contexts E[.] producing a value of type prod
	return []c14Ctx{
		{"!({})", 'B', "NTLJ", true, 'B'},
		{"{} & is_int(value)", 'B', "NTLJ", true, 'B'},
		{"is_int(value) | {}", 'B', "NTLJ", true, 'B'},
		{"{} and is_int(value)", 'B', "NTLJ", true, 'B'},
		{"is_int(value) or {}", 'B', "NTLJ", true, 'B'},
		// the other operand is a constant that decides the result: simplification
		// must not make the fault in the dropped operand disappear
		{"{} & false", 'B', "NTLJ", true, 'B'},
		{"false & {}", 'B', "NTLJ", true, 'B'},
		{"true | {}", 'B', "NTLJ", true, 'B'},
		{"{} | true", 'B', "NTLJ", true, 'B'},
		{"{} & 1 = 2", 'B', "NTLJ", true, 'B'},
		{"1 = 1 | {}", 'B', "NTLJ", true, 'B'},
		{"{} and true", 'B', "NTLJ", true, 'B'},
		{"false or {}", 'B', "NTLJ", true, 'B'},
		// Booleans compare for equality with Booleans, whatever their form
		{"{} = true", 'B', "NTLJ", true, 'B'},
		{"false != {}", 'B', "NTLJ", true, 'B'},
		{"{} = is_int(value)", 'B', "NTLJ", true, 'B'},
		{"{} = 1", 'N', "TBLJ", true, 'B'},
		{"1 < {}", 'N', "TBLJ", true, 'B'},
		{"{} != 'a'", 'T', "NBLJ", true, 'B'},
		{"key ^= {}", 'T', "NBLJ", true, 'B'},
		{"{} ~= '^a'", 'T', "NBLJ", true, 'B'},
		{"{} >= key", 'T', "NBLJ", true, 'B'},
		{"({} + 1) > 2", 'N', "TBLJ", true, 'B'},
		{"({} / 0.5) > 1", 'N', "TBLJ", true, 'B'},
		{"(0.25 / {}) < 100", 'N', "TBLJ", true, 'B'},
		{"(2 * {}) > 1", 'N', "TBLJ", true, 'B'},
		{"(3 - {}) > 1", 'N', "TBLJ", true, 'B'},
		{"(key + {}) = 'ab'", 'T', "NBLJ", true, 'B'},
		{"strlen({}) > 1", 0, "", true, 'B'},
		{"upper({}) = 'A'", 0, "", true, 'B'},
		{"is_int({})", 0, "", true, 'B'},
		{"join(',', key, {}) != ''", 0, "", true, 'B'},
		{"{} in ('a', 'b')", 'T', "NBLJ", true, 'B'},
		// a list computed by a function: its element type is only known at run time, so text and
		// numbers are both accepted on the left; execution must then not fail on the mismatch
		{"{} in split(value, ',')", 'T', "BLJ", true, 'B'},
		{"{} in split(value, ',')", 'N', "BLJ", true, 'B'},
		{"{} in list(1, 10)", 'T', "BLJ", true, 'B'},
		{"{} in int_list(1, 10)", 'N', "BLJ", true, 'B'},
		{"key in ('a', {})", 'T', "NBLJ", true, 'B'},
		{"int(value) in (1, {})", 'N', "TBLJ", true, 'B'},
		{"{} between 'a' and 'b'", 'T', "NBLJ", true, 'B'},
		{"key between {} and 'z'", 'T', "NBLJ", true, 'B'},
		{"key between 'a' and {}", 'T', "NBLJ", true, 'B'},
		{"int(value) between 1 and {}", 'N', "TBLJ", true, 'B'},
		{"json({})['a']['b'] != 'q'", 0, "", true, 'B'},
		{"split({}, ',')[0] = 'a'", 0, "", true, 'B'},
		{"{} + 1", 'N', "TBLJ", true, 'N'},
		{"2 * {}", 'N', "TBLJ", true, 'N'},
		{"{} + 'x'", 'T', "NBLJ", true, 'T'},
		{"upper({})", 0, "", true, 'T'},
		{"strlen({})", 0, "", true, 'N'},
	}
}

func c14StmtCtxs() []c14Ctx {
	// statement contexts S[.]
	return []c14Ctx{
		{"select * where {}", 'B', "NTLJ", false, 0},
		{"where {}", 'B', "NTLJ", false, 0},
		{"delete where {}", 'B', "NTLJ", false, 0},
		{"select key, value where {} limit 2", 'B', "NTLJ", false, 0},
		{"select key, {} where true", 0, "", false, 0},
		{"select {} as x where true", 0, "", false, 0},
		{"select key, {} as x where key = 'a' order by key desc", 0, "", false, 0},
		{"select {} as g, count(1) where true group by g", 0, "LJ", false, 0},
		{"select count(1), sum({}) where true", 0, "", false, 0},
		// fields defined through other fields: their types are known only once the names are resolved
		{"select key as a, (a + {}) as b where true", 'T', "NBLJ", false, 0},
		{"select key as a, (a + 'x' + {}) as b where true", 'T', "NBLJ", false, 0},
		{"select key as a, a + 'x' as b, (b + {}) as c where true", 'T', "NBLJ", false, 0},
		{"select int(value) as n, (n + {}) as m where true", 'N', "TBLJ", false, 0},
		{"select int(value) as n, n + 1 as m, (m * {}) as k where true", 'N', "TBLJ", false, 0},
		{"select key as a, a + 'x' as b where b = {}", 'T', "NBLJ", false, 0},
		{"select key as a, a + 'x' as b where {} != b", 'T', "NBLJ", false, 0},
		{"select int(value) as n, n + 1 as m where m > {}", 'N', "TBLJ", false, 0},
		{"select key as a, upper(a) as b, b + 'x' as c where c ^= {} order by c", 'T', "NBLJ", false, 0},
		// fields used ahead of the fields they are defined through
		{"select (b + {}) as s, a + 'y' as b, key as a where true", 'T', "NBLJ", false, 0},
		{"select (m * {}) as k, n + 1 as m, int(value) as n where k > 4", 'N', "TBLJ", false, 0},
		{"select upper(b) as s, a + 'y' as b, key as a where s = {}", 'T', "NBLJ", false, 0},
		{"select c ^= {} as s, b + 'z' as c, a + 'y' as b, key as a where s", 'T', "NBLJ", false, 0},
		// a field that is just the name of another field has that field's type
		{"select {} as a, a as b where true order by b", 0, "LJ", false, 0},
		{"select {} as a, a as b, b as c where true order by c desc, a", 0, "LJ", false, 0},
		{"select {} as a, a as g, count(1) where true group by a, g", 0, "LJ", false, 0},
		// the bare name of a select field as the whole filter and under `!`: it
		// stands for the field, which must be Boolean
		{"select {} as n where !n", 'B', "NTLJ", false, 0},
		{"select key, {} as n where key = 'a' & !n", 'B', "NTLJ", false, 0},
		{"select {} as n, !n as m where true", 'B', "NTLJ", false, 0},
		{"select {} as n where !(!n)", 'B', "NTLJ", false, 0},
		{"select key, {} as n where n", 'B', "NTLJ", false, 0},
		{"select !n as m, {} as n where m", 'B', "NTLJ", false, 0},
		{"put ({}, 'v')", 0, "BLJ", false, 0},
		{"put ('k', {})", 0, "BLJ", false, 0},
		{"put ('a', 'b'), ('k', {})", 0, "BLJ", false, 0},
		{"remove {}", 0, "BLJ", false, 0},
		{"remove 'a', {}", 0, "BLJ", false, 0},
		// the faulty item ahead of well-typed ones (every item is checked, not the last one only)
		{"remove {}, 'a'", 0, "BLJ", false, 0},
		{"remove 'b', {}, 'a'", 0, "BLJ", false, 0},
		{"put ({}, 'v'), ('a', 'b')", 0, "BLJ", false, 0},
		{"put ('k', {}), ('a', 'b')", 0, "BLJ", false, 0},
		{"put ('a', 'b'), ('k', {}), ('c', 'd')", 0, "BLJ", false, 0},
	}
}

// the statement contexts whose hole may not mention key / value
func c14KeywordFaults() []c14Case {
	var out []c14Case
	for _, q := range []string{
		"put ('a', value)", "put ('a', upper('x' + value))", "put (value, 'a')", "put ('a', 'b'), ('c', strlen(value))", "put ('a', str(strlen(key) + strlen(value)))",
		"remove key", "remove value", "remove 'a', key", "remove upper(key)", "remove 'a' + key", "remove str(strlen(value))", "remove 'a', 'b' + upper(value)",
		"remove key, 'a'", "remove value + 'x', 'a'", "remove 'b', key, 'a'", "put ('a', value), ('b', 'c')", "put (value, 'a'), ('b', 'c')",
	} {
		out = append(out, c14Case{Stmt: q, Mutant: true, Fault: "forbidden key/value keyword"})
	}
	for _, q := range []string{
		"select nosuchagg(1) where true", "select count() where true", "select sum(1, 2) where true", "select count(1), quantile(float(value)) where true",
		"select key where key = 'a' order by nosuch", "select key, sum(int(value)) where true", "select key where true group by key",
		// aggregate functions outside a select list
		"select * where count(1) > 0", "select key where sum(int(value)) > 1", "delete where count(1) > 0", "select key where upper(group_concat(key, ',')) = 'A'",
		"select key where key = 'a' & max(value) = 'x'", "put ('a', count(1))", "put (group_concat('a', ','), 'v')", "remove min('a')",
		// aggregate functions inside a scalar call or another aggregate
		"select int(count(1)) where true", "select upper(group_concat(key, ',')) where true", "select sum(int(count(1))) where true", "select key, strlen(group_concat(value, '')) where true group by key",
		"select count(sum(1)) where true",
	} {
		out = append(out, c14Case{Stmt: q, Mutant: true, Fault: "aggregate / clause misuse detectable at plan time"})
	}
	// an aggregate whose constant argument has a type it does not support,
	// over every access path that opens a cursor when it is initialised
	for _, a := range []string{"quantile(int(value), 'x')", "quantile(int(value), 1.5)", "quantile(int(value), 0.0 - 0.1)", "quantile(int(value), 1)", "group_concat(value, 1)", "group_concat(key, 1.5)"} {
		for _, w := range []string{"value ^= '1'", "key ^= 'k'", "key > 'a' & key < 'z'", "key >= 'a'", "true"} {
			for _, q := range []string{"select " + a + " as q where " + w, "select key, " + a + " as q where " + w + " group by key", "select key, count(1) as c, " + a + " as q where " + w + " group by key order by c limit 2"} {
				out = append(out, c14Case{Stmt: q, Mutant: true, Fault: "aggregate argument of a type it does not support"})
			}
		}
	}
	return out
}

func fill(tmpl, x string) string { return strings.Replace(tmpl, "{}", x, 1) }

// usesValueInWrite: put/remove statements may not mention value (or key in remove)
func c14Forbidden(stmt string) bool {
	s := strings.ToLower(stmt)
	if strings.HasPrefix(s, "put") {
		return strings.Contains(s, "value")
	}
	if strings.HasPrefix(s, "remove") {
		return strings.Contains(s, "value") || strings.Contains(s, "key")
	}
	return false
}

type c14Unit struct {
	stmt  int
	inner int // -1: no inner context
}

func c14Units(t core.Tier) []c14Unit {
	var us []c14Unit
	for i := range c14StmtCtxs() {
		us = append(us, c14Unit{i, -1})
		for j := range c14ExprCtxs() {
			us = append(us, c14Unit{i, j})
		}
	}
	us = append(us, c14Unit{-1, -1})
	return us
}

func (c14) Units(t core.Tier) int { return len(c14Units(t)) }

func (c14) RunUnit(t core.Tier, u int, r *core.Reporter) {
	un := c14Units(t)[u]
	run := func(c c14Case) {
		if !r.Begin(func() *core.Failure {
			return &core.Failure{Property: "C14", Leg: "static-check", Case: c.text(), Data: core.MustJSON(c)}
		}) {
			return
		}
		f, status, ev := c14Judge(&c)
		r.Evals(ev)
		if f != nil {
			status = "violation:" + f.Sig
			r.Fail(*f)
		}
		r.Case(c.text(), c.Mutant, status)
		r.Observed(status + c.Fault)
	}
	if un.stmt < 0 {
		for _, c := range c14KeywordFaults() {
			run(c)
		}
		// aggregates at every position of a select field where an operand may
		// stand: under `!`, on either side of IN and BETWEEN, inside their lists
		for _, a := range []string{"count(1)", "sum(int(value))", "max(strlen(key))"} {
			for _, f := range []string{"!({} > 1)", "{} in (1, 2)", "1 in ({}, 2)", "2 in (1, {} * 2)", "{} between 1 and 5", "2 between {} and 5", "2 between 1 and {}", "!({} in (1, {}))", "!(!({} = 1))",
				"({} > 1) = true", "!({} > 1) & {} < 9", "{} > 1 | !({} between 2 and 3)"} {
				e := strings.ReplaceAll(f, "{}", a)
				for _, q := range []string{"select " + e + " as b where true", "select value, " + e + " as b where key != 'zz' group by value", "select " + e + " as b, count(1) as c where true group by key order by c, b"} {
					run(c14Case{Stmt: q})
				}
			}
		}
		return
	}
	sc := c14StmtCtxs()[un.stmt]
	ctxs := []c14Ctx{sc}
	if un.inner >= 0 {
		ic := c14ExprCtxs()[un.inner]
		// compose when the inner context's product fits the statement hole
		if sc.want != 0 && ic.prod != sc.want {
			if strings.IndexByte(sc.wrong, ic.prod) < 0 {
				return
			}
			// the inner context itself is a wrong-type filler: covered at depth 1
			return
		}
		if strings.IndexByte(sc.wrong, ic.prod) >= 0 {
			return // the inner context's product is itself a wrong-type operand here (covered at depth 1)
		}
		composed := c14Ctx{tmpl: fill(sc.tmpl, "("+ic.tmpl+")"), want: ic.want, wrong: ic.wrong}
		ctxs = []c14Ctx{composed}
		if t == core.Thorough {
			for _, ic2 := range c14ExprCtxs() {
				if ic.want != 0 && ic2.prod != ic.want {
					continue
				}
				ctxs = append(ctxs, c14Ctx{tmpl: fill(composed.tmpl, "("+ic2.tmpl+")"), want: ic2.want, wrong: ic2.wrong})
			}
		}
	}
	for _, cx := range ctxs {
		for _, g := range c14Good() {
			gtext := g.text
			if strings.ContainsAny(gtext, " ") {
				gtext = "(" + gtext + ")"
			}
			stmt := fill(cx.tmpl, gtext)
			if strings.Contains(stmt, "key ^= key") || strings.Contains(stmt, "key >= key") {
				continue // the engine refuses comparing a field with itself; not a typing matter
			}
			if c14Forbidden(stmt) {
				continue
			}
			isFault := strings.IndexByte(cx.wrong, g.typ) >= 0
			ok := cx.want == 0 || g.typ == cx.want
			switch {
			case isFault:
				run(c14Case{Stmt: stmt, Mutant: true, Fault: fmt.Sprintf("operand of type %c where %c is required", g.typ, cx.want)})
			case ok:
				run(c14Case{Stmt: stmt})
			}
		}
		for _, a := range c14FaultyAtoms() {
			stmt := fill(cx.tmpl, "("+a.text+")")
			if c14Forbidden(stmt) {
				continue
			}
			run(c14Case{Stmt: stmt, Mutant: true, Fault: a.fault})
		}
	}
}

var c14ExecStores = [][]store.Pair{
	{{K: "a", V: "1"}, {K: "ab", V: "2"}, {K: "b", V: "3"}},
	{{K: "a", V: "1.5"}, {K: "k", V: "10"}},
	nil,
}

func operandTypeError(msg string) bool {
	for _, m := range []string{"wrong type", "Invalid operator", "not boolean", "not string", "not number", "type not support"} {
		if strings.Contains(msg, m) {
			return true
		}
	}
	return false
}

func c14Judge(c *c14Case) (f *core.Failure, status string, evals int) {
	mk := func(sig, exp, obs string) *core.Failure {
		return &core.Failure{Property: "C14", Leg: "static-check", Sig: sig, Case: c.text(), Data: core.MustJSON(c), Expected: exp, Observed: obs}
	}
	st := store.New(c14ExecStores[0])
	_, err, pan, _ := drv.Build(c.Stmt, st)
	evals++
	if pan != "" {
		return mk("panic-at-plan-time", "an error value", "panic: "+pan), "", evals
	}
	if c.Mutant {
		if err == nil {
			return mk("fault-accepted", "rejected when the plan is built ("+c.Fault+")", "accepted"), "", evals
		}
		if len(st.Log) != 0 {
			return mk("storage-access-before-rejection", "no storage call", fmt.Sprint(st.Log)), "", evals
		}
		return nil, "rejected", evals
	}
	if err != nil {
		return mk("well-typed-rejected", "accepted", "BuildPlan: "+strings.ReplaceAll(err.Error(), "\n", " ")), "", evals
	}
	// execute the accepted statement: no operand-type error on data its conversions accept
	for _, ps := range c14ExecStores {
		for _, mode := range []string{drv.Row, drv.Batch} {
			s2 := store.New(ps)
			s2.NoLog = true
			out := drv.Run(c.Stmt, s2, drv.Opt{Mode: mode, B: 2})
			evals++
			if out.Panic != "" {
				continue // C06
			}
			if e := out.Err(); e != nil && strings.Contains(e.Error(), "Cannot find function") {
				// an unknown function (or an aggregate where no aggregate can be
				// computed) is a static fault: it may not wait for the first row
				return mk("static-fault-at-execution", "a statement that is accepted knows its functions", fmt.Sprintf("%s over %s: %s", mode, store.CanonPairs(ps), strings.ReplaceAll(e.Error(), "\n", " "))), "", evals
			}
			if e := out.Err(); e != nil && operandTypeError(e.Error()) {
				return mk("operand-type-error-at-execution", "no operand-type error on an accepted statement", fmt.Sprintf("%s over %s: %s", mode, store.CanonPairs(ps), strings.ReplaceAll(e.Error(), "\n", " "))), "", evals
			}
		}
	}
	return nil, "accepted", evals
}

func (c14) Replay(data json.RawMessage) *core.Failure {
	var c c14Case
	if err := json.Unmarshal(data, &c); err != nil {
		return nil
	}
	f, _, _ := c14Judge(&c)
	return f
}
