package checks

import (
	"encoding/json"
	"fmt"
	"strconv"
	"strings"
	"unicode"
	"unicode/utf8"

	"github.com/c4pt0r/kvql"

	"verif/mc/core"
)

// C16 — tokens carry their true offset and text; spacing between tokens is irrelevant.

type c16Case struct {
	Query string `json:"query"`
	// Spacing family: the token texts whose concatenation (with optional
	// spaces) is Query; empty for the exhaustive-string family.
	Tokens []string `json:"tokens,omitempty"`
}

func (c *c16Case) text() string { return strconv.Quote(c.Query) }

// A query that is no valid UTF-8 travels as bytes (JSON text would replace
// the invalid bytes), next to a readable quoted form.
type c16Wire struct {
	Query  string   `json:"query"`
	Bytes  []byte   `json:"query_bytes,omitempty"`
	Tokens []string `json:"tokens,omitempty"`
}

func (c c16Case) MarshalJSON() ([]byte, error) {
	w := c16Wire{Query: c.Query, Tokens: c.Tokens}
	if !utf8.ValidString(c.Query) {
		w.Bytes = []byte(c.Query)
		w.Query = strconv.QuoteToASCII(c.Query)
	}
	return json.Marshal(w)
}

func (c *c16Case) UnmarshalJSON(b []byte) error {
	var w c16Wire
	if err := json.Unmarshal(b, &w); err != nil {
		return err
	}
	c.Query, c.Tokens = w.Query, w.Tokens
	if w.Bytes != nil {
		c.Query = string(w.Bytes)
	}
	return nil
}

type c16 struct{}

func init() { core.Register(c16{}) }

func (c16) Info() core.Info {
	return core.Info{
		ID:    "C16",
		Title: "Tokens carry their true offset and text; spacing between tokens is irrelevant",
		Level: "exploration",
		Rule: "(1) ALL strings of length <= 6 (thorough: 7) over the symbol alphabet {a 1 space ' \" = ! < + & ( ,}, over {k . ` ^ ~ > - * | ) [ ;} and over {a space ' \" ` = ( , 1} (all three quote characters together) and over {a space TAB LF CR ' = 1 ,} (every kind of white space); (2) words of every length 1..40 in lower / UPPER / Mixed case and long numbers, alone and next to operators and brackets; (3) all sequences of <= 5 units over {a 1 = ' blank FF VT NBSP NEL EM-SPACE}; (4) all sequences of <= 4 (thorough: 5) tokens from a 24-token pool (keywords, word operators, names, numbers, quoted literals, every symbol class) rendered with every choice of 0/1/2 spaces between neighbours wherever the reference lexer says the space is optional. " +
			"Oracle: an independent reference lexer written from the README token classes: same sequence of kinds and texts; every token's text is found at its reported offset (case-folded for words; quoted literals: the exact bytes between the quotes); two-character operators are one token; spacing variants give identical kind/text sequences. Non-trivial: >= 2 tokens. Distinct: the input string." +
			" Inputs holding a lone ^ or ~ are judged on: each token's text at its offset, tokens following one another without overlap, words free of separator characters, no byte outside the tokens other than white space and the lone symbol.",
		Assumptions: []string{
			"white space is the space, tab, line feed and carriage return characters", "after an unterminated quote only the tokens before it are judged",
			"a lone ^ or ~ is no token of the language (the engine drops it): such inputs are judged on the per-token offset/text invariant only",
			"a back-quoted literal may be reported as a string or as a name",
		},
	}
}

type rtok struct {
	kind string
	text string
	pos  int
}

var c16Keywords = map[string]string{
	"select": "SELECT", "where": "WHERE", "key": "KEY", "value": "VALUE", "limit": "LIMIT", "order": "ORDER", "by": "BY",
	"asc": "ASC", "desc": "DESC", "true": "TRUE", "false": "FALSE", "as": "AS", "group": "GROUP", "put": "PUT", "remove": "REMOVE", "delete": "DELETE",
	"in": "OP", "between": "OP", "and": "OP", "or": "OP",
}

func isDigits(s string) bool {
	if s == "" {
		return false
	}
	for i := 0; i < len(s); i++ {
		if s[i] < '0' || s[i] > '9' {
			return false
		}
	}
	return true
}

// refFold case-folds a word: every letter to its lower case, every other
// byte (bytes that are no valid UTF-8 included) kept as it is.
func refFold(s string) string {
	b := make([]byte, 0, len(s))
	for i := 0; i < len(s); {
		r, n := utf8.DecodeRuneInString(s[i:])
		if r == utf8.RuneError && n <= 1 {
			b = append(b, s[i])
			i++
			continue
		}
		b = utf8.AppendRune(b, unicode.ToLower(r))
		i += n
	}
	return string(b)
}

func classifyWord(w string) string {
	lw := refFold(w)
	if k, ok := c16Keywords[lw]; ok {
		return k
	}
	if isDigits(lw) {
		if _, err := strconv.ParseInt(lw, 10, 64); err == nil {
			return "NUM"
		}
		return "FLOAT" // an integer literal beyond int64 is read as a float
	}
	if i := strings.IndexByte(lw, '.'); i >= 0 && (isDigits(lw[:i]) || lw[:i] == "") && (isDigits(lw[i+1:]) || lw[i+1:] == "") && len(lw) > 1 {
		return "FLOAT"
	}
	return "NAME"
}

// refLex: the reference lexer. unterminated: an unterminated quote was met
// (tokens before it are returned); odd: a lone ^ or ~ was met.
func refLex(q string) (toks []rtok, unterminated, odd bool) {
	i := 0
	isSep := func(c byte) bool {
		return strings.IndexByte(" \t\n\r'\"`~^=!*+-/><&|()[],;", c) >= 0
	}
	for i < len(q) {
		c := q[i]
		switch {
		case c == ' ' || c == '\t' || c == '\n' || c == '\r':
			i++
		case c == '\'' || c == '"' || c == '`':
			j := strings.IndexByte(q[i+1:], c)
			if j < 0 {
				return toks, true, odd
			}
			kind := "STR"
			if c == '`' {
				kind = "BQ"
			}
			toks = append(toks, rtok{kind, q[i+1 : i+1+j], i})
			i += j + 2
		case strings.IndexByte("!^~<>", c) >= 0 && i+1 < len(q) && q[i+1] == '=':
			toks = append(toks, rtok{"OP", q[i : i+2], i})
			i += 2
		case c == '^' || c == '~':
			odd = true
			i++
		case strings.IndexByte("=!*+-/><&|", c) >= 0:
			toks = append(toks, rtok{"OP", string(c), i})
			i++
		case c == '(':
			toks = append(toks, rtok{"(", "(", i})
			i++
		case c == ')':
			toks = append(toks, rtok{")", ")", i})
			i++
		case c == '[':
			toks = append(toks, rtok{"[", "[", i})
			i++
		case c == ']':
			toks = append(toks, rtok{"]", "]", i})
			i++
		case c == ',':
			toks = append(toks, rtok{"SEP", ",", i})
			i++
		case c == ';':
			toks = append(toks, rtok{"SEMI", ";", i})
			i++
		default:
			j := i
			for j < len(q) && !isSep(q[j]) {
				j++
			}
			// other white space (form feed, vertical tab, no-break space ...)
			// around a word is not part of its text
			w := q[i:j]
			lead := len(w) - len(strings.TrimLeftFunc(w, unicode.IsSpace))
			w = strings.TrimSpace(w)
			if w != "" {
				toks = append(toks, rtok{classifyWord(w), refFold(w), i + lead})
			}
			i = j
		}
	}
	return toks, false, odd
}

func engineKind(t *kvql.Token) string {
	switch t.Tp {
	case kvql.OPERATOR:
		return "OP"
	case kvql.STRING:
		return "STR"
	case kvql.NAME:
		return "NAME"
	case kvql.NUMBER:
		return "NUM"
	case kvql.FLOAT:
		return "FLOAT"
	case kvql.LPAREN:
		return "("
	case kvql.RPAREN:
		return ")"
	case kvql.LBRACK:
		return "["
	case kvql.RBRACK:
		return "]"
	case kvql.SEP:
		return "SEP"
	case kvql.SEMI:
		return "SEMI"
	}
	if s, ok := kvql.TokenTypeToString[t.Tp]; ok {
		return strings.ToUpper(s)
	}
	return fmt.Sprint(t.Tp)
}

func engineLex(q string) (toks []rtok, pan string) {
	defer func() {
		if r := recover(); r != nil {
			pan = fmt.Sprint(r)
		}
	}()
	for _, t := range kvql.NewLexer(q).Split() {
		toks = append(toks, rtok{engineKind(t), t.Data, t.Pos})
	}
	return
}

func fmtToks(ts []rtok) string {
	parts := make([]string, len(ts))
	for i, t := range ts {
		parts[i] = fmt.Sprintf("%s(%q)@%d", t.kind, t.text, t.pos)
	}
	return "[" + strings.Join(parts, " ") + "]"
}

// c16Judge compares the engine's tokens with the reference's.
func c16Judge(c *c16Case) (f *core.Failure, nontrivial bool, status string) {
	q := c.Query
	mk := func(leg, sig, exp, obs string) *core.Failure {
		return &core.Failure{Property: "C16", Leg: leg, Sig: sig, Case: c.text(), Data: core.MustJSON(c), Expected: exp, Observed: obs}
	}
	want, unterminated, odd := refLex(q)
	got, pan := engineLex(q)
	if pan != "" {
		return mk("tokens-vs-reference", "panic", fmtToks(want), "panic: "+pan), true, ""
	}
	nontrivial = len(want) >= 2
	// per-token invariant: the text is found at the reported offset
	for i, t := range got {
		if unterminated && i >= len(want) {
			break // tokens from the unterminated quote on are not judged
		}
		switch t.kind {
		case "STR":
			ok := t.pos >= 0 && t.pos+len(t.text)+2 <= len(q) && (q[t.pos] == '\'' || q[t.pos] == '"' || q[t.pos] == '`') &&
				q[t.pos+1:t.pos+1+len(t.text)] == t.text && q[t.pos+1+len(t.text)] == q[t.pos]
			if !ok {
				return mk("offset-and-text", "literal-not-at-offset", "the quoted literal's bytes at its offset", fmt.Sprintf("token %d of %s", i, fmtToks(got))), nontrivial, ""
			}
		default:
			at := t.pos
			if t.kind == "NAME" && at >= 0 && at < len(q) && q[at] == '`' {
				at++ // back-quoted name
			}
			if at < 0 || at > len(q) || !strings.HasPrefix(refFold(q[at:]), t.text) {
				return mk("offset-and-text", "text-not-at-offset", "each token's text at its reported offset", fmt.Sprintf("token %d of %s", i, fmtToks(got))), nontrivial, ""
			}
		}
	}
	if odd {
		// a lone ^ or ~ is no token of the language; whatever the lexer makes
		// of it, the tokens around it still carry exactly their own text: they
		// follow one another without overlap, a word holds no separator
		// character, and every byte outside the tokens is white space or the
		// lone symbol itself
		if !unterminated {
			covered := make([]bool, len(q))
			end := 0
			for i, t := range got {
				lo, hi := t.pos, t.pos+len(t.text)
				quoted := t.kind == "STR" || (t.kind == "NAME" && lo >= 0 && lo < len(q) && q[lo] == '`')
				if quoted {
					hi += 2
				} else if t.kind != "OP" && len(t.text) > 0 && strings.ContainsAny(t.text, " \t\n\r'\"`~^=!*+-/><&|()[],;") && len(t.text) > 1 {
					return mk("offset-and-text", "separator-inside-word", "words free of separator characters", fmt.Sprintf("token %d of %s", i, fmtToks(got))), nontrivial, ""
				}
				if lo < end || hi > len(q) {
					return mk("offset-and-text", "tokens-overlap", "tokens following one another", fmt.Sprintf("token %d of %s", i, fmtToks(got))), nontrivial, ""
				}
				for j := lo; j < hi; j++ {
					covered[j] = true
				}
				end = hi
			}
			for j := 0; j < len(q); {
				if covered[j] {
					j++
					continue
				}
				r, n := utf8.DecodeRuneInString(q[j:])
				if !(unicode.IsSpace(r) || q[j] == '^' || q[j] == '~') {
					return mk("offset-and-text", "byte-in-no-token", "every byte that is no white space inside a token", fmt.Sprintf("byte %d (%q) of the query is in none of %s", j, q[j], fmtToks(got))), nontrivial, ""
				}
				j += n
			}
		}
		return nil, false, "odd-symbol(invariant-only)"
	}
	// sequence: kinds, texts, positions
	n := len(want)
	if unterminated {
		if len(got) < n {
			return mk("tokens-vs-reference", "missing-tokens", fmtToks(want)+" (before the unterminated quote)", fmtToks(got)), nontrivial, ""
		}
		got = got[:n]
	}
	if len(got) != len(want) {
		return mk("tokens-vs-reference", "token-count", fmtToks(want), fmtToks(got)), nontrivial, ""
	}
	for i := range want {
		w, g := want[i], got[i]
		kindOK := w.kind == g.kind || (w.kind == "BQ" && (g.kind == "STR" || g.kind == "NAME"))
		if !kindOK || w.text != g.text || w.pos != g.pos {
			sig := "token-differs"
			if kindOK && w.text == g.text {
				sig = "offset-differs"
			}
			return mk("tokens-vs-reference", sig, fmtToks(want), fmtToks(got)), nontrivial, ""
		}
	}
	status = "ok"
	if unterminated {
		status = "ok(unterminated)"
	}
	return nil, nontrivial, status
}

const c16AlphaA = "a1 '\"=!<+&(,"
const c16AlphaB = "k.`^~>-*|)[;"

// all three quote characters together: each is plain content inside a literal opened by another
const c16AlphaC = "a '\"`=(,1"

// every kind of white space next to words, operators and quotes
const c16AlphaD = "a \t\n\r'=1,"

var c16Pool = []string{
	"select", "where", "key", "value", "and", "or", "in", "between", "'a'", "\"b c\"", "12", "1.5", "f", "(", ")", "[", "]", ",", "=", "!=", ">=", "+", "!", "&",
}

type c16Unit struct {
	fam   string
	alpha string
	pre   string
	i     int
}

func c16Units(t core.Tier) []c16Unit {
	var us []c16Unit
	for _, al := range []string{c16AlphaA, c16AlphaB, c16AlphaC, c16AlphaD} {
		us = append(us, c16Unit{fam: "short", alpha: al})
		for i := 0; i < len(al); i++ {
			for j := 0; j < len(al); j++ {
				us = append(us, c16Unit{fam: "str", alpha: al, pre: string(al[i]) + string(al[j])})
			}
		}
	}
	for i := range c16Pool {
		us = append(us, c16Unit{fam: "spacing", i: i})
	}
	us = append(us, c16Unit{fam: "words"})
	us = append(us, c16Unit{fam: "uspace"})
	us = append(us, c16Unit{fam: "bytes"})
	return us
}

func (c16) Units(t core.Tier) int { return len(c16Units(t)) }

func (c16) RunUnit(t core.Tier, u int, r *core.Reporter) {
	un := c16Units(t)[u]
	judge := func(c c16Case) {
		if !r.Begin(func() *core.Failure {
			return &core.Failure{Property: "C16", Leg: "tokens-vs-reference", Case: c.text(), Data: core.MustJSON(c)}
		}) {
			return
		}
		f, nontrivial, status := c16Judge(&c)
		r.Evals(1)
		if f != nil {
			status = "violation:" + f.Sig
			r.Fail(*f)
		}
		r.Case(c.text(), nontrivial, status)
	}
	switch un.fam {
	case "short":
		for _, s := range allStrings(un.alpha, 0, 2) {
			judge(c16Case{Query: s})
		}
	case "str":
		max := 6
		if t == core.Thorough {
			max = 7
		}
		var rec func(cur string)
		rec = func(cur string) {
			if len(cur) > 2 {
				judge(c16Case{Query: cur})
			}
			if len(cur) == max {
				return
			}
			for i := 0; i < len(un.alpha); i++ {
				rec(cur + string(un.alpha[i]))
			}
		}
		rec(un.pre)
		r.Observed(un.pre)
	case "uspace":
		// all sequences of <= 5 units over words, an operator, a quote and
		// six kinds of white space beyond the blank
		units := []string{"a", "1", "=", "'", " ", "\f", "\v", "\u00a0", "\u0085", "\u2003"}
		var rec func(cur string, n int)
		rec = func(cur string, n int) {
			if n > 0 {
				judge(c16Case{Query: cur})
			}
			if n == 5 {
				return
			}
			for _, u := range units {
				rec(cur+u, n+1)
			}
		}
		rec("", 0)
	case "bytes":
		// all sequences of <= 5 units over letters of one, two and three bytes in
		// both cases, bytes that are no valid UTF-8, an operator, a quote and a blank
		units := []string{"a", "B", "\u00c9", "\u00e9", "\u212a", "\xff", "\xc3", "=", "'", " "}
		var rec func(cur string, n int)
		rec = func(cur string, n int) {
			if n > 0 {
				judge(c16Case{Query: cur})
			}
			if n == 5 {
				return
			}
			for _, u := range units {
				rec(cur+u, n+1)
			}
		}
		rec("", 0)
	case "words":
		// words of every length 1..40 in lower, UPPER and Mixed case (keywords
		// are at most 7 bytes long), numbers of growing length, alone and
		// between an operator and a bracket
		var ws []string
		for n := 1; n <= 40; n++ {
			lower := strings.Repeat("abcdefghij", 4)[:n]
			ws = append(ws, lower, strings.ToUpper(lower), strings.ToUpper(lower[:1])+lower[1:], lower[:n/2]+strings.ToUpper(lower[n/2:]),
				strings.Repeat("1234567890", 4)[:n], lower[:n-1]+"_", "A"+strings.Repeat("9", n-1))
		}
		ws = append(ws, "SELECTED", "Between", "BETWEENX", "between_", "WhereKey", "KEYVALUE", "Is_Prefix", "TRUEFALSE", "LIMITLESS", "ORDERBY", "groupBY", "InIn", "ANDOR", "Ascending", "DESCENDING")
		for _, w := range ws {
			for _, q := range []string{w, w + " = 1", "(" + w + ")", "a=" + w + ",", "select " + w + " as " + w + " where " + w, w + "(" + w + ")"} {
				judge(c16Case{Query: q})
			}
		}
	case "spacing":
		maxToks := 4
		if t == core.Thorough {
			maxToks = 5
		}
		var rec func(seq []string)
		rec = func(seq []string) {
			c16Spacings(seq, func(q string) {
				c := c16Case{Query: q, Tokens: seq}
				if !r.Begin(func() *core.Failure {
					return &core.Failure{Property: "C16", Leg: "spacing-irrelevant", Case: c.text(), Data: core.MustJSON(c)}
				}) {
					return
				}
				f, nontrivial, status := c16JudgeSpacing(&c)
				r.Evals(1)
				if f != nil {
					status = "violation:" + f.Sig
					r.Fail(*f)
				}
				r.Case(c.text(), nontrivial, status)
			})
			if len(seq) == maxToks {
				return
			}
			for _, tk := range c16Pool {
				rec(append(seq[:len(seq):len(seq)], tk))
			}
		}
		rec([]string{c16Pool[un.i]})
	}
}

// spaceOptional: the reference lexer reads a+b as the two tokens a, b.
func spaceOptional(a, b string) bool {
	ta, _, _ := refLex(a)
	tb, _, _ := refLex(b)
	tj, un, odd := refLex(a + b)
	if un || odd || len(ta) != 1 || len(tb) != 1 || len(tj) != 2 {
		return false
	}
	return tj[0].kind == ta[0].kind && tj[0].text == ta[0].text && tj[1].kind == tb[0].kind && tj[1].text == tb[0].text
}

// c16Spacings renders seq with every choice of "", " ", "  " between
// neighbours where the space is optional (" " and "  " where it is required).
func c16Spacings(seq []string, emit func(string)) {
	var rec func(i int, cur string)
	rec = func(i int, cur string) {
		if i == len(seq) {
			emit(cur)
			return
		}
		if i == 0 {
			rec(1, seq[0])
			return
		}
		gaps := []string{" ", "  "}
		if spaceOptional(seq[i-1], seq[i]) {
			gaps = []string{"", " ", "  "}
		}
		for _, g := range gaps {
			rec(i+1, cur+g+seq[i])
		}
	}
	rec(0, "")
}

func c16JudgeSpacing(c *c16Case) (f *core.Failure, nontrivial bool, status string) {
	if f, nt, st := c16Judge(c); f != nil {
		return f, nt, st
	}
	mk := func(sig, exp, obs string) *core.Failure {
		return &core.Failure{Property: "C16", Leg: "spacing-irrelevant", Sig: sig, Case: c.text(), Data: core.MustJSON(c), Expected: exp, Observed: obs}
	}
	// the kind/text sequence must be that of the conventionally spaced rendering
	conv, pan := engineLex(strings.Join(c.Tokens, " "))
	got, pan2 := engineLex(c.Query)
	if pan != "" || pan2 != "" {
		return mk("panic", "tokens", pan+pan2), true, ""
	}
	strip := func(ts []rtok) string {
		parts := make([]string, len(ts))
		for i, t := range ts {
			parts[i] = t.kind + ":" + t.text
		}
		return strings.Join(parts, " ")
	}
	if strip(conv) != strip(got) {
		return mk("spacing-changes-tokens", strip(conv)+" (as with single spaces)", strip(got)), true, ""
	}
	return nil, len(c.Tokens) >= 2, "ok"
}

func (c16) Replay(data json.RawMessage) *core.Failure {
	var c c16Case
	if err := json.Unmarshal(data, &c); err != nil {
		return nil
	}
	if len(c.Tokens) > 0 {
		f, _, _ := c16JudgeSpacing(&c)
		return f
	}
	f, _, _ := c16Judge(&c)
	return f
}

func (c16) Simplify(data json.RawMessage) []json.RawMessage {
	var c c16Case
	if err := json.Unmarshal(data, &c); err != nil || len(c.Tokens) > 0 {
		return nil
	}
	var out []json.RawMessage
	for i := range c.Query {
		d := c16Case{Query: c.Query[:i] + c.Query[i+1:]}
		out = append(out, core.MustJSON(d))
	}
	return out
}
