package checks

import (
	"encoding/json"
	"fmt"
	"strings"

	"github.com/c4pt0r/kvql"

	"verif/mc/core"
	"verif/mc/drv"
	"verif/mc/ref"
	"verif/mc/store"
)

// C04 — constant folding and expression rewriting preserve every expression's value.

type c04Case struct {
	Expr  *ref.Expr    `json:"expr"`
	Bool  bool         `json:"bool"` // Boolean expression: also used as WHERE
	Store []store.Pair `json:"store"`
}

func (c *c04Case) text() string {
	return fmt.Sprintf("%s | store=%s", c.Expr.Render(), store.CanonPairs(c.Store))
}

type c04 struct{}

func init() { core.Register(c04{}) }

func (c04) Info() core.Info {
	return core.Info{
		ID:    "C04",
		Title: "Constant folding and expression rewriting preserve every expression's value",
		Level: "exploration",
		Rule: "all well-typed expressions of a typed grammar: number leaves {1,2,3,0.5,1.5,2.0,int(value),float(value),strlen('ab'),int('3'),float('1.5')} combined by + - * / to depth 2 and as 3-element chains in every association (thorough: 4-element + and * chains), text leaves {'a','b',key,value,upper('a'),lower('B'),str(3),join('-','a','b'),substr('abc',0,2)} combined by +, Boolean leaves {true,false,key='a',is_int('x'),comparisons of the number/text expressions} combined by & | and or ! to depth 3, foldable calls around constant sub-trees. " +
			"Oracle leg 1: the expression is parsed twice; one copy is evaluated as parsed (Execute per pair and ExecuteBatch per chunk), the other after ExpressionOptimizer.Optimize(); wherever the original evaluates without error the rewritten one must give the same kind (int/float/text/bool) and value. Leg 2: the full query `select key, E where true` / `select key where E` through BuildPlan vs the reference evaluation of the un-rewritten text. Non-trivial: the optimiser changed the tree. Distinct: (expression, store)." +
			" Family big: integer constants beyond 2^53, small factors whose product lies there, 0, +-1, 2, 3 and int(value): all pairs and 3-chains under + - * /, and as comparison / IN operands against stored integers of that size.",
		Assumptions: []string{"floats are dyadic rationals with short fractions so that equality and re-association are exact", "integer division is judged by leg 1 only when inexact (the documentation does not define its rounding)"},
	}
}

func c04NumLeaves() []*ref.Expr {
	return []*ref.Expr{
		ref.N(1), ref.N(2), ref.N(3), ref.Fl(0.5), ref.Fl(1.5), ref.Fl(2.0), ref.Fl(0.0625),
		ref.Call("int", ref.Value()), ref.Call("float", ref.Value()),
		ref.Call("strlen", ref.S("ab")), ref.Call("int", ref.S("3")), ref.Call("float", ref.S("1.5")),
	}
}

func c04TextLeaves() []*ref.Expr {
	return []*ref.Expr{
		ref.S("a"), ref.S("b"), ref.Key(), ref.Value(), ref.Call("upper", ref.S("a")), ref.Call("lower", ref.S("B")),
		ref.Call("str", ref.N(3)), ref.Call("join", ref.S("-"), ref.S("a"), ref.S("b")), ref.Call("substr", ref.S("abc"), ref.N(0), ref.N(2)),
	}
}

// c04BigLeaves: integers whose neighbours share one float64 image (beyond
// 2^53), small factors whose product lies there, and the small numbers that
// take them one step further: integer constants fold in integer arithmetic.
func c04BigLeaves() []*ref.Expr {
	return []*ref.Expr{
		ref.N(9007199254740993), ref.N(9007199254740992), ref.N(-9007199254740993), ref.N(3002399751580331), ref.N(4503599627370497), ref.N(94906267),
		ref.N(0), ref.N(1), ref.N(2), ref.N(3), ref.N(-1), ref.Call("int", ref.Value()),
	}
}

var c04Arith = []string{"+", "-", "*", "/"}

func isZeroLit(e *ref.Expr) bool {
	return (e.K == "i" && e.I == 0) || (e.K == "f" && e.F == 0)
}

func c04Store() []store.Pair {
	return []store.Pair{{K: "a", V: "1"}, {K: "ab", V: "2"}, {K: "b", V: "3"}, {K: "c", V: "10"}, {K: "d", V: "0"}}
}

func c04FloatStore() []store.Pair {
	return []store.Pair{{K: "a", V: "0.5"}, {K: "b", V: "1.5"}, {K: "c", V: "2"}}
}

type c04Unit struct {
	fam string
	i   int
}

func c04Units(t core.Tier) []c04Unit {
	var us []c04Unit
	for i := range c04NumLeaves() {
		us = append(us, c04Unit{"num", i})
		us = append(us, c04Unit{"numcmp", i})
		if t == core.Thorough {
			us = append(us, c04Unit{"chain4", i})
		}
	}
	us = append(us, c04Unit{"text", 0}, c04Unit{"calls", 0}, c04Unit{"chain4q", 0}, c04Unit{"lists", 0}, c04Unit{"nested", 0})
	for i := range c04BigLeaves() {
		us = append(us, c04Unit{"big", i})
	}
	for i := 0; i < 21; i++ { // one unit per Boolean leaf (the first operand)
		us = append(us, c04Unit{"bool", i})
	}
	return us
}

func (c04) Units(t core.Tier) int { return len(c04Units(t)) }

func (c04) RunUnit(t core.Tier, u int, r *core.Reporter) {
	un := c04Units(t)[u]
	L := c04NumLeaves()
	run := func(e *ref.Expr, isBool bool) {
		for _, ps := range [][]store.Pair{c04Store(), c04FloatStore()} {
			c := c04Case{Expr: e, Bool: isBool, Store: ps}
			if !r.Begin(func() *core.Failure {
				return &core.Failure{Property: "C04", Leg: "folded-vs-unfolded", Case: c.text(), Data: core.MustJSON(c)}
			}) {
				continue
			}
			fs, nontrivial, status, obs, ev := c04Judge(&c)
			r.Evals(ev)
			for _, f := range fs {
				status = "violation:" + f.Sig
				r.Fail(f)
			}
			r.Case(c.text(), nontrivial, status)
			r.Observed(obs)
		}
	}
	bin := func(op string, a, b *ref.Expr) *ref.Expr { return ref.Bin(op, a.Clone(), b.Clone()) }
	switch un.fam {
	case "num":
		a := L[un.i]
		for _, b := range L {
			for _, o1 := range c04Arith {
				if o1 == "/" && isZeroLit(b) {
					continue
				}
				e1 := bin(o1, a, b)
				run(e1, false)
				for _, c := range L {
					for _, o2 := range c04Arith {
						if o2 == "/" && isZeroLit(c) {
							continue
						}
						run(bin(o2, e1, c), false) // (a o1 b) o2 c
						run(bin(o2, c, e1), false) // c o2 (a o1 b)
					}
				}
			}
		}
	case "numcmp":
		a := L[un.i]
		for _, b := range L {
			for _, o1 := range c04Arith {
				e1 := bin(o1, a, b)
				for _, cmp := range []string{"=", "!=", ">", ">=", "<", "<="} {
					for _, c := range []*ref.Expr{ref.N(2), ref.Fl(1.5), ref.Call("int", ref.Value()), ref.Bin("*", ref.N(3), ref.Fl(0.5))} {
						run(bin(cmp, e1, c), true)
						run(bin(cmp, c, e1), true)
					}
				}
				run(ref.Btw(e1.Clone(), ref.Bin("-", ref.N(1), ref.N(1)), ref.Bin("+", ref.N(2), ref.Fl(1.5))), true)
				run(ref.In(e1.Clone(), ref.N(2), ref.Bin("+", ref.N(1), ref.N(2)), ref.Fl(1.5)), true)
			}
		}
	case "big":
		bigStore := []store.Pair{{K: "a", V: "9007199254740993"}, {K: "b", V: "9007199254740992"}, {K: "c", V: "9007199254740994"}, {K: "d", V: "3"}}
		cur := bigStore
		runOn := func(e *ref.Expr, isBool bool) {
			c := c04Case{Expr: e, Bool: isBool, Store: cur}
			if !r.Begin(func() *core.Failure {
				return &core.Failure{Property: "C04", Leg: "folded-vs-unfolded", Case: c.text(), Data: core.MustJSON(c)}
			}) {
				return
			}
			fs, nontrivial, status, obs, ev := c04Judge(&c)
			r.Evals(ev)
			for _, f := range fs {
				status = "violation:" + f.Sig
				r.Fail(f)
			}
			r.Case(c.text(), nontrivial, status)
			r.Observed(obs)
		}
		B := c04BigLeaves()
		a := B[un.i]
		if un.i == 0 {
			// a float operand ahead of two integer constants whose own sum / product
			// passes the int64 limit: as written no two integers are ever combined
			// (small stored numbers: every float sum below is exact or rounds the same way
			// in either association, so only the integer wrap can tell the two forms apart)
			cur = []store.Pair{{K: "d", V: "3"}, {K: "e", V: "0"}}
			lim := []*ref.Expr{ref.N(9223372036854775807), ref.N(4611686018427387904), ref.N(3037000500), ref.N(1), ref.N(2), ref.N(-9223372036854775807)}
			for _, x := range []*ref.Expr{ref.Call("float", ref.Value()), ref.Bin("+", ref.Call("int", ref.Value()), ref.Fl(0.5))} {
				for _, c1 := range lim {
					for _, c2 := range lim {
						for _, op := range []string{"+", "*"} {
							runOn(bin(op, bin(op, x.Clone(), c1), c2), false)
							runOn(bin(">", bin(op, bin(op, x.Clone(), c1), c2), ref.N(0)), true)
						}
					}
				}
			}
			cur = bigStore
		}
		for _, b := range B {
			for _, o1 := range c04Arith {
				if o1 == "/" && isZeroLit(b) {
					continue
				}
				e1 := bin(o1, a, b)
				runOn(e1, false)
				for _, cmp := range []string{"=", ">", "<="} {
					runOn(bin(cmp, ref.Call("int", ref.Value()), e1), true)
					runOn(bin(cmp, e1, ref.Call("int", ref.Value())), true)
				}
				runOn(ref.In(ref.Call("int", ref.Value()), e1.Clone(), ref.N(3)), true)
				for _, c := range B {
					for _, o2 := range c04Arith {
						if o2 == "/" && isZeroLit(c) {
							continue
						}
						runOn(bin(o2, e1, c), false)
						runOn(bin(o2, c, e1), false)
					}
				}
			}
		}
	case "nested":
		// a case mapping applied to the result of another one, over text whose
		// letters do not map one to one (micro sign, final sigma, Kelvin sign,
		// dotless / dotted i, sharp s, a title-case digraph): no call is redundant
		us := [][]store.Pair{{{K: "a", V: "5 \u00b5m"}, {K: "b", V: "\u03c2\u03c3"}, {K: "c", V: "\u212a9"}, {K: "d", V: "\u01c5x"}, {K: "e", V: "\u00dfS"}, {K: "f", V: "\u0130\u0131iI"}, {K: "g", V: "plain"}, {K: "\u00b5", V: "\u212b\u2126"}}}
		runOn := func(e *ref.Expr, isBool bool) {
			for _, ps := range us {
				c := c04Case{Expr: e, Bool: isBool, Store: ps}
				if !r.Begin(func() *core.Failure {
					return &core.Failure{Property: "C04", Leg: "folded-vs-unfolded", Case: c.text(), Data: core.MustJSON(c)}
				}) {
					continue
				}
				fs, nontrivial, status, obs, ev := c04Judge(&c)
				r.Evals(ev)
				for _, f := range fs {
					status = "violation:" + f.Sig
					r.Fail(f)
				}
				r.Case(c.text(), nontrivial, status)
				r.Observed(obs)
			}
		}
		fns := []string{"upper", "lower"}
		args := []*ref.Expr{ref.Value(), ref.Key(), ref.Bin("+", ref.Key(), ref.Value()), ref.Bin("+", ref.Value(), ref.S("\u212a")), ref.S("\u00b5\u03c2"), ref.Call("str", ref.Call("strlen", ref.Value()))}
		for _, f := range fns {
			for _, g := range fns {
				for _, a := range args {
					e := ref.Call(f, ref.Call(g, a.Clone()))
					runOn(e, false)
					runOn(ref.Call("strlen", e.Clone()), false)
					runOn(ref.Bin("=", e.Clone(), ref.Call(f, a.Clone())), true)
					runOn(ref.Bin("+", e.Clone(), ref.S("!")), false)
					for _, h := range fns {
						runOn(ref.Call(h, e.Clone()), false)
					}
				}
			}
		}
	case "lists":
		// IN lists and BETWEEN bounds with a constant, a folding constant or a
		// row-dependent expression at every position, under a left operand of each
		// of the three sorts (a list is constant only if every item is)
		tx := []*ref.Expr{ref.S("b"), ref.Call("lower", ref.S("B")), ref.Bin("+", ref.S("a"), ref.S("b")), ref.Key(), ref.Value(), ref.S("2")}
		for _, l := range tx {
			for _, a := range tx {
				for _, b := range tx {
					run(ref.In(l.Clone(), a.Clone(), b.Clone()), true)
					run(ref.Not(ref.In(l.Clone(), a.Clone(), b.Clone())), true)
					run(ref.Btw(l.Clone(), a.Clone(), b.Clone()), true)
					for _, c := range tx[:4] {
						run(ref.In(l.Clone(), a.Clone(), b.Clone(), c.Clone()), true)
					}
				}
			}
		}
		nx := []*ref.Expr{ref.N(2), ref.Bin("+", ref.N(1), ref.N(1)), ref.Bin("*", ref.N(5), ref.N(2)), ref.Call("int", ref.Value()), ref.Bin("+", ref.Call("int", ref.Value()), ref.N(1)), ref.N(0)}
		for _, l := range nx {
			for _, a := range nx {
				for _, b := range nx {
					run(ref.In(l.Clone(), a.Clone(), b.Clone()), true)
					run(ref.Btw(l.Clone(), a.Clone(), b.Clone()), true)
					run(ref.Bin("&", ref.Btw(l.Clone(), a.Clone(), b.Clone()), ref.Bin("!=", ref.Key(), ref.S("zz"))), true)
					for _, c := range nx[:4] {
						run(ref.In(l.Clone(), a.Clone(), b.Clone(), c.Clone()), true)
					}
				}
			}
		}
	case "chain4q":
		// quick tier: 4-element + and * chains over a reduced leaf pool
		Lq := []*ref.Expr{ref.N(2), ref.N(3), ref.Fl(0.5), ref.Fl(0.0625), ref.Call("int", ref.Value()), ref.Call("float", ref.Value())}
		for _, a := range Lq {
			for _, b := range Lq {
				for _, c := range Lq {
					for _, d := range Lq {
						for _, op := range []string{"+", "*"} {
							run(bin(op, bin(op, bin(op, a, b), c), d), false)
							run(bin(op, bin(op, a, b), bin(op, c, d)), false)
							run(bin(op, bin(op, a, bin(op, b, c)), d), false)
						}
					}
				}
			}
		}
	case "chain4":
		a := L[un.i]
		for _, b := range L {
			for _, c := range L {
				for _, d := range L {
					for _, op := range []string{"+", "*"} {
						run(bin(op, bin(op, bin(op, a, b), c), d), false)
						run(bin(op, bin(op, a, b), bin(op, c, d)), false)
						run(bin(op, a, bin(op, b, bin(op, c, d))), false)
					}
				}
			}
		}
	case "text":
		T := c04TextLeaves()
		// 4-element concatenation chains in every association (the optimiser
		// groups trailing constants pairwise, then group-wise)
		T4 := []*ref.Expr{ref.Key(), ref.Value(), ref.S("a"), ref.S("b"), ref.S("c"), ref.Call("upper", ref.S("d"))}
		for _, a := range T4 {
			for _, b := range T4 {
				for _, c := range T4 {
					for _, d := range T4 {
						run(bin("+", bin("+", bin("+", a, b), c), d), false)
						run(bin("+", bin("+", a, b), bin("+", c, d)), false)
						run(bin("+", bin("+", a, bin("+", b, c)), d), false)
						run(bin("+", a, bin("+", b, bin("+", c, d))), false)
					}
				}
			}
		}
		for _, a := range T {
			run(a, false)
			for _, b := range T {
				e1 := bin("+", a, b)
				run(e1, false)
				for _, c := range T {
					run(bin("+", e1, c), false)
					run(bin("+", c, e1), false)
				}
				for _, cmp := range []string{"=", "!=", "^=", ">", "<="} {
					run(bin(cmp, a, b), true)
					run(bin(cmp, e1, ref.S("ab")), true)
				}
				run(ref.Call("upper", e1.Clone()), false)
				run(ref.Call("strlen", e1.Clone()), false)
			}
		}
	case "bool":
		B := []*ref.Expr{
			ref.Bl(true), ref.Bl(false), ref.Bin("=", ref.Key(), ref.S("a")), ref.Call("is_int", ref.S("x")), ref.Call("is_int", ref.Value()),
			ref.Bin(">", ref.N(2), ref.N(1)), ref.Bin("=", ref.S("a"), ref.S("a")), ref.Bin(">", ref.Call("float", ref.Value()), ref.Fl(1.5)),
			ref.Bin("<", ref.Bin("+", ref.N(1), ref.N(2)), ref.Call("int", ref.Value())), ref.Bin("=", ref.Bin("*", ref.N(3), ref.Fl(0.5)), ref.Fl(1.5)),
		}
		nB := len(B)
		// every comparison operator on operands that meet their bound in the data
		// (a rewrite that negates or mirrors a comparison shows on the equal pair)
		iv := func() *ref.Expr { return ref.Call("int", ref.Value()) }
		B = append(B,
			ref.Bin("<=", iv(), ref.N(2)), ref.Bin(">=", iv(), ref.N(2)), ref.Bin("!=", iv(), ref.N(2)), ref.Bin("<", iv(), ref.N(2)), ref.Bin("<=", ref.N(2), iv()),
			ref.Bin("<=", ref.Value(), ref.S("2")), ref.Bin(">=", ref.Key(), ref.S("b")), ref.Bin("!=", ref.Key(), ref.S("a")), ref.Bin("^=", ref.Key(), ref.S("a")),
			ref.In(ref.Value(), ref.S("1"), ref.S("2")), ref.Btw(iv(), ref.N(1), ref.N(2)),
		)
		if len(B) != 21 {
			panic("c04: the number of Boolean leaves changed, adjust c04Units")
		}
		for _, a := range B[un.i : un.i+1] {
			run(a, true)
			run(ref.Not(a.Clone()), true)
			run(ref.Not(ref.Not(a.Clone())), true)
			for _, b := range B {
				for _, o1 := range []string{"&", "|", "and", "or"} {
					e1 := bin(o1, a, b)
					run(e1, true)
					run(ref.Not(e1.Clone()), true)
					for _, c := range B[:nB] {
						for _, o2 := range []string{"&", "|"} {
							run(bin(o2, e1, c), true)
							run(bin(o2, c, e1), true)
						}
					}
				}
			}
		}
	case "calls":
		// foldable calls around constant and non-constant sub-trees
		for _, a := range L {
			for _, b := range L {
				for _, op := range c04Arith {
					if op == "/" && isZeroLit(b) {
						continue
					}
					e := bin(op, a, b)
					run(ref.Call("str", ref.Call("int", e.Clone())), false)
					run(ref.Call("float", e.Clone()), false)
					run(ref.Call("is_float", e.Clone()), true)
					run(ref.Call("is_int", e.Clone()), true)
					run(ref.Call("strlen", ref.Call("str", ref.Call("int", e.Clone()))), false)
					run(ref.Idx(ref.Call("list", e.Clone(), ref.N(1)), ref.N(0)), false)
					run(ref.Call("join", ref.S(","), e.Clone(), ref.S("x")), false)
				}
			}
		}
	}
}

type c04Eval struct {
	vals []string // canonical value per pair ("ERR" when evaluation failed)
	str  string
	err  string
}

// c04EvalExpr parses q, optionally optimises the expression, evaluates it on
// every pair row-wise and chunk-wise.
func c04EvalExpr(q string, where bool, optimize bool, ps []store.Pair) (row, vec c04Eval, pan string) {
	defer func() {
		if r := recover(); r != nil {
			pan = fmt.Sprint(r)
		}
	}()
	stmt, err := kvql.NewParser(q).Parse()
	if err != nil {
		row.err, vec.err = err.Error(), err.Error()
		return
	}
	sel := stmt.(*kvql.SelectStmt)
	var expr kvql.Expression
	if where {
		expr = sel.Where.Expr
	} else {
		expr = sel.Fields[1]
	}
	if optimize {
		eo := kvql.ExpressionOptimizer{Root: expr}
		expr = eo.Optimize()
	}
	row.str, vec.str = expr.String(), expr.String()
	chunk := make([]kvql.KVPair, len(ps))
	for i, p := range ps {
		chunk[i] = kvql.NewKVPStr(p.K, p.V)
		v, err := expr.Execute(chunk[i], kvql.NewExecuteCtx())
		if err != nil {
			row.vals = append(row.vals, "ERR")
		} else {
			row.vals = append(row.vals, ref.Canon(v))
		}
	}
	// one chunk per pair (so that one failing pair does not hide the others) and one whole chunk
	for i := range chunk {
		vs, err := expr.ExecuteBatch(chunk[i:i+1], kvql.NewExecuteCtx())
		if err != nil || len(vs) != 1 {
			vec.vals = append(vec.vals, "ERR")
		} else {
			vec.vals = append(vec.vals, ref.Canon(vs[0]))
		}
	}
	if vs, err := expr.ExecuteBatch(chunk, kvql.NewExecuteCtx()); err == nil && len(vs) == len(chunk) {
		for i := range vs {
			if c := ref.Canon(vs[i]); vec.vals[i] != "ERR" && c != vec.vals[i] {
				vec.vals[i] = "CHUNK-DIFFERS:" + c + "/" + vec.vals[i]
			}
		}
	}
	return
}

func c04Judge(c *c04Case) (fails []core.Failure, nontrivial bool, status, observed string, evals int) {
	mk := func(leg, sig, exp, obs string) core.Failure {
		return core.Failure{Property: "C04", Leg: leg, Sig: sig, Case: c.text(), Data: core.MustJSON(c), Expected: exp, Observed: obs}
	}
	etext := c.Expr.Render()
	q := "select key, " + etext + " as x where true"
	where := false
	ps := st0(c.Store)
	o1, o1v, pan1 := c04EvalExpr(q, where, false, ps)
	evals += 2
	if pan1 != "" {
		return nil, false, "unfolded-panics", "panic", evals
	}
	if o1.err != "" {
		return nil, false, "rejected", "rejected", evals
	}
	f1, f1v, pan2 := c04EvalExpr(q, where, true, ps)
	evals += 2
	status = "ok"
	if pan2 != "" {
		return []core.Failure{mk("folded-vs-unfolded", "optimizer-panic", "as unfolded: "+strings.Join(o1.vals, ","), "panic: "+pan2)}, true, "", "panic", evals
	}
	nontrivial = o1.str != f1.str
	observed = f1.str
	cmp := func(orig, opt c04Eval, mode string) {
		for i := range orig.vals {
			if orig.vals[i] == "ERR" || strings.HasPrefix(orig.vals[i], "CHUNK-DIFFERS") {
				continue
			}
			if i < len(opt.vals) && opt.vals[i] != orig.vals[i] {
				sig := "value-changed"
				if opt.vals[i] == "ERR" {
					sig = "folded-fails"
				} else if contentOf(opt.vals[i]) == contentOf(orig.vals[i]) {
					sig = "kind-changed"
				}
				fails = append(fails, mk("folded-vs-unfolded", sig, fmt.Sprintf("%s on pair %v = %s (unfolded, %s)", o1.str, ps[i], orig.vals[i], mode), fmt.Sprintf("rewritten to %s = %s", f1.str, opt.vals[i])))
				return
			}
		}
	}
	cmp(o1, f1, "row")
	if len(fails) == 0 {
		cmp(o1v, f1v, "batch")
	}
	// leg 2: the full query vs the reference evaluation of the un-rewritten text
	var want []string
	inDomain := true
	for _, p := range ps {
		v, err := ref.Eval(c.Expr, &ref.Env{Key: p.K, Value: p.V})
		if err != nil {
			inDomain = false
			break
		}
		want = append(want, ref.T(p.K).Canon()+" | "+v.Canon())
	}
	if inDomain {
		for _, mode := range []string{drv.Row, drv.Batch} {
			st := store.New(c.Store)
			st.NoLog = true
			out := drv.Run(q, st, drv.Opt{Mode: mode, B: 2})
			evals++
			if out.BuildErr != nil && out.Panic == "" {
				continue
			}
			if out.Failed() || !drv.EqualRows(out.Rows, want) {
				sig := "query-" + out.Status()
				if !out.Failed() {
					sig = "query-value-differs"
					if kindOnlyDiff(out.Rows, want) {
						sig = "query-kind-differs"
					}
				}
				fails = append(fails, mk("query-vs-reference", sig, fmt.Sprint(want), mode+": "+out.Describe()))
				break
			}
		}
		// leg 3: the field by its name: a second field that is nothing but the
		// name shows the same value (the name stands for the field as written,
		// whatever the rewrite made of the field's own tree)
		if nontrivial && len(fails) == 0 {
			var want3 []string
			for _, p := range ps {
				v, _ := ref.Eval(c.Expr, &ref.Env{Key: p.K, Value: p.V})
				want3 = append(want3, ref.T(p.K).Canon()+" | "+v.Canon()+" | "+v.Canon())
			}
			for _, mode := range []string{drv.Row, drv.Batch} {
				st := store.New(c.Store)
				st.NoLog = true
				out := drv.Run("select key, "+etext+" as x, x as y where true", st, drv.Opt{Mode: mode, B: 2})
				evals++
				if out.BuildErr != nil && out.Panic == "" {
					continue
				}
				if out.Failed() || !drv.EqualRows(out.Rows, want3) {
					fails = append(fails, mk("query-vs-reference", "named-field-differs-from-field", fmt.Sprint(want3), mode+": "+out.Describe()))
					break
				}
			}
		}
		if c.Bool {
			var keys []string
			for _, p := range ps {
				v, _ := ref.Eval(c.Expr, &ref.Env{Key: p.K, Value: p.V})
				if v.B {
					keys = append(keys, ref.T(p.K).Canon())
				}
			}
			for _, mode := range []string{drv.Row, drv.Batch} {
				st := store.New(c.Store)
				st.NoLog = true
				out := drv.Run("select key where "+etext, st, drv.Opt{Mode: mode, B: 2})
				evals++
				if out.BuildErr != nil && out.Panic == "" {
					continue
				}
				if out.Failed() || !drv.EqualRows(out.Rows, keys) {
					fails = append(fails, mk("query-vs-reference", "where-selects-other-rows", fmt.Sprint(keys), mode+": "+out.Describe()))
					break
				}
			}
		}
	} else if status == "ok" {
		status = "ok(leg1-only)"
	}
	return fails, nontrivial, status, observed, evals
}

func (c04) Replay(data json.RawMessage) *core.Failure {
	var c c04Case
	if err := json.Unmarshal(data, &c); err != nil || c.Expr == nil {
		return nil
	}
	fs, _, _, _, _ := c04Judge(&c)
	if len(fs) == 0 {
		return nil
	}
	return &fs[0]
}

func (c04) Simplify(data json.RawMessage) []json.RawMessage {
	var c c04Case
	if err := json.Unmarshal(data, &c); err != nil || c.Expr == nil {
		return nil
	}
	var out []json.RawMessage
	// replace the expression by a child of the same static kind
	t0 := ref.TypeOf(c.Expr, nil)
	var walk func(e *ref.Expr)
	walk = func(e *ref.Expr) {
		for _, a := range e.A {
			if ref.TypeOf(a, nil) == t0 && a.Size() > 1 {
				d := c
				d.Expr = a.Clone()
				out = append(out, core.MustJSON(d))
			}
			walk(a)
		}
	}
	walk(c.Expr)
	for _, ps := range dropOnePair(c.Store) {
		d := c
		d.Store = ps
		out = append(out, core.MustJSON(d))
	}
	return out
}
