package checks

import (
	"fmt"
	"sort"
	"verif/mc/core"

	"verif/mc/ref"
	"verif/mc/store"
)

// ---- shared pools --------------------------------------------------------

var litsL = []string{"", "a", "ab", "b"}
var litsLc = []string{"", "a", "ab", "b", "c"}
var litsLt = []string{"", "a", "ab", "b", "ba", "c"}

var cmpOps = []string{"=", "!=", "^=", ">", ">=", "<", "<="}

var regexps = []string{"^a", "b$", "a.", "^[0-9]+$", "a|c", "^$"}

// fieldCmpAtoms: f op l and l op f.
func fieldCmpAtoms(fields []*ref.Expr, lits []string) []*ref.Expr {
	var out []*ref.Expr
	for _, f := range fields {
		for _, op := range cmpOps {
			for _, l := range lits {
				out = append(out, ref.Bin(op, f.Clone(), ref.S(l)))
			}
		}
	}
	for _, f := range fields {
		for _, op := range cmpOps {
			for _, l := range lits {
				out = append(out, ref.Bin(op, ref.S(l), f.Clone()))
			}
		}
	}
	return out
}

func orderedPairs(lits []string) [][2]string {
	s := append([]string(nil), lits...)
	sort.Strings(s)
	var out [][2]string
	for i := 0; i < len(s); i++ {
		for j := i + 1; j < len(s); j++ {
			out = append(out, [2]string{s[i], s[j]})
		}
	}
	return out
}

// keyInAtoms: key in (l..) with 1..max literals, duplicates included.
func inAtoms(f *ref.Expr, lits []string, max int) []*ref.Expr {
	var out []*ref.Expr
	var rec func(cur []*ref.Expr)
	rec = func(cur []*ref.Expr) {
		if len(cur) >= 1 {
			out = append(out, ref.In(f.Clone(), cloneAll(cur)...))
		}
		if len(cur) == max {
			return
		}
		for _, l := range lits {
			rec(append(cur[:len(cur):len(cur)], ref.S(l)))
		}
	}
	rec(nil)
	return out
}

func cloneAll(es []*ref.Expr) []*ref.Expr {
	out := make([]*ref.Expr, len(es))
	for i, e := range es {
		out[i] = e.Clone()
	}
	return out
}

func betweenAtoms(f *ref.Expr, lits []string) []*ref.Expr {
	var out []*ref.Expr
	for _, p := range orderedPairs(lits) {
		out = append(out, ref.Btw(f.Clone(), ref.S(p[0]), ref.S(p[1])))
	}
	// equal bounds: "great or equals than x and less or equals than y" holds for exactly x
	for i, l := range lits {
		if i%2 == 0 {
			out = append(out, ref.Btw(f.Clone(), ref.S(l), ref.S(l)))
		}
	}
	return out
}

// c01FuncAtoms: atoms using conversion / string functions and arithmetic.
func c01FuncAtoms() []*ref.Expr {
	iv := func() *ref.Expr { return ref.Call("int", ref.Value()) }
	fv := func() *ref.Expr { return ref.Call("float", ref.Value()) }
	return []*ref.Expr{
		ref.Call("is_int", ref.Value()),
		ref.Call("is_float", ref.Value()),
		ref.Call("is_int", ref.Key()),
		ref.Bin(">", iv(), ref.N(1)),
		ref.Bin(">=", iv(), ref.N(2)),
		ref.Bin("<", iv(), ref.N(10)),
		ref.Bin("<=", ref.N(2), iv()),
		ref.Bin("=", iv(), ref.N(2)),
		ref.Bin("!=", iv(), ref.N(1)),
		ref.Bin(">", fv(), ref.Fl(1.5)),
		ref.Bin("<=", fv(), ref.Fl(2.0)),
		ref.Bin("<", fv(), ref.N(2)),
		ref.Bin(">", iv(), ref.Fl(1.5)),
		ref.Btw(iv(), ref.N(2), ref.N(10)),
		ref.Btw(iv(), ref.N(2), ref.N(2)),
		ref.Btw(fv(), ref.Fl(1.5), ref.Fl(1.5)),
		ref.Btw(fv(), ref.Fl(0.5), ref.Fl(2.0)),
		ref.In(iv(), ref.N(1), ref.N(10)),
		ref.Bin("=", ref.Call("strlen", ref.Key()), ref.N(2)),
		ref.Bin(">", ref.Call("strlen", ref.Value()), ref.N(1)),
		ref.Bin("=", ref.Call("upper", ref.Key()), ref.S("AB")),
		ref.Bin("=", ref.Call("lower", ref.Call("upper", ref.Value())), ref.S("a")),
		ref.Bin("=", ref.Bin("+", ref.Key(), ref.Value()), ref.S("aa")),
		ref.Bin("^=", ref.Bin("+", ref.Key(), ref.S("-")), ref.S("a-")),
		ref.Bin(">", ref.Bin("+", iv(), ref.N(1)), ref.N(2)),
		ref.Bin("=", ref.Bin("*", iv(), ref.N(2)), ref.N(4)),
		ref.Bin("<", ref.Bin("-", iv(), ref.N(1)), ref.N(1)),
		ref.Bin(">=", ref.Bin("/", iv(), ref.N(1)), ref.N(2)),
		ref.Bin("=", ref.Call("str", iv()), ref.Value()),
		ref.Bin(">", ref.Bin("*", fv(), ref.Fl(0.5)), ref.Fl(0.5)),
		ref.Bin("=", ref.Bin("+", iv(), ref.Fl(0.5)), ref.Fl(2.5)),
		// the same field extended twice inside one comparison (in-place append bugs)
		ref.Bin("<", ref.Bin("+", ref.Key(), ref.S("a")), ref.Bin("+", ref.Key(), ref.S("b"))),
		ref.Bin("=", ref.Bin("+", ref.Key(), ref.S("a")), ref.Bin("+", ref.Key(), ref.S("b"))),
		ref.Bin("!=", ref.Bin("+", ref.Value(), ref.S("a")), ref.Bin("+", ref.Value(), ref.S("b"))),
		ref.Bin("=", ref.Bin("+", ref.Key(), ref.Value()), ref.Bin("+", ref.Key(), ref.S("1"))),
		ref.Btw(ref.Bin("+", ref.Key(), ref.S("m")), ref.Bin("+", ref.Key(), ref.S("a")), ref.Bin("+", ref.Key(), ref.S("z"))),
		ref.In(ref.Bin("+", ref.Value(), ref.S("x")), ref.Bin("+", ref.Value(), ref.S("y")), ref.Bin("+", ref.Value(), ref.S("x"))),
		// chains that the optimiser re-associates / folds
		ref.Bin("=", ref.Bin("+", ref.Bin("+", ref.Key(), ref.S("a")), ref.S("b")), ref.S("aab")),
		ref.Bin("^=", ref.Bin("+", ref.Bin("+", ref.Value(), ref.S("-")), ref.S("x")), ref.S("1-x")),
		ref.Bin("=", ref.Bin("+", ref.S("a"), ref.Bin("+", ref.S("b"), ref.Key())), ref.S("aba")),
		ref.Bin("=", ref.Bin("+", ref.Bin("+", iv(), ref.N(1)), ref.N(2)), ref.N(4)),
		ref.Bin("=", ref.Bin("*", ref.Bin("*", iv(), ref.N(2)), ref.N(3)), ref.N(12)),
		ref.Bin("=", ref.Bin("-", ref.Bin("-", iv(), ref.N(1)), ref.N(1)), ref.N(0)),
		ref.Bin(">", ref.Bin("*", ref.Bin("+", iv(), ref.N(1)), ref.N(2)), ref.Bin("+", ref.N(2), ref.N(3))),
		ref.Bin("=", ref.Bin("+", ref.Bin("+", fv(), ref.Fl(0.5)), ref.Fl(1.5)), ref.N(3)),
		ref.Bin("<", ref.Bin("-", ref.N(10), ref.Bin("-", ref.N(3), iv())), ref.N(9)),
		// substr at the edges of the text: a start on the last byte, an end at / beyond the length
		ref.Bin("!=", ref.Call("substr", ref.Key(), ref.N(0), ref.N(1)), ref.S("")),
		ref.Bin("!=", ref.Call("substr", ref.Key(), ref.N(1), ref.N(2)), ref.S("")),
		ref.Bin("!=", ref.Call("substr", ref.Key(), ref.N(1), ref.N(3)), ref.S("")),
		ref.Bin("!=", ref.Call("substr", ref.Key(), ref.N(2), ref.N(3)), ref.S("")),
		ref.Bin("=", ref.Call("substr", ref.Key(), ref.N(2), ref.N(9)), ref.S("b")),
		ref.Bin("=", ref.Call("substr", ref.Value(), ref.N(1), ref.N(2)), ref.S("0")),
		ref.Bin("=", ref.Call("substr", ref.Value(), ref.N(0), ref.N(1)), ref.S("1")),
		ref.Bl(true),
		ref.Bl(false),
	}
}

func regexAtoms() []*ref.Expr {
	var out []*ref.Expr
	for _, f := range []*ref.Expr{ref.Key(), ref.Value()} {
		for _, r := range regexps {
			out = append(out, ref.Bin("~=", f.Clone(), ref.S(r)))
		}
	}
	// patterns / prefixes that depend on the pair (per-statement caching of a
	// compiled pattern must not outlive the pair it was computed from)
	out = append(out,
		ref.Bin("~=", ref.Key(), ref.Value()),
		ref.Bin("~=", ref.Value(), ref.Key()),
		ref.Bin("~=", ref.Key(), ref.Bin("+", ref.S("^"), ref.Value())),
		ref.Bin("~=", ref.Key(), ref.Call("lower", ref.Value())),
		ref.Bin("~=", ref.Value(), ref.Bin("+", ref.Key(), ref.S("$"))),
		ref.Bin("~=", ref.Bin("+", ref.Key(), ref.Value()), ref.Bin("+", ref.Value(), ref.S("$"))),
		ref.Bin("^=", ref.Key(), ref.Value()),
		ref.Bin("^=", ref.Value(), ref.Key()),
		ref.Bin("^=", ref.Key(), ref.Call("lower", ref.Value())),
		ref.Bin("^=", ref.Bin("+", ref.Key(), ref.Value()), ref.Bin("+", ref.Key(), ref.S("1"))),
		// IN lists mixing literals and elements that depend on the pair, in every order
		ref.In(ref.Value(), ref.Key(), ref.S("2")),
		ref.In(ref.Value(), ref.S("2"), ref.Key()),
		ref.In(ref.Value(), ref.S("1"), ref.Key(), ref.S("10")),
		ref.In(ref.Key(), ref.Call("lower", ref.Value()), ref.S("c")),
		ref.In(ref.Call("int", ref.Value()), ref.Call("strlen", ref.Key()), ref.N(10)),
		ref.In(ref.Call("int", ref.Value()), ref.N(10), ref.Call("strlen", ref.Key())),
		ref.In(ref.Call("strlen", ref.Key()), ref.Call("int", ref.Value()), ref.N(3)),
	)
	return out
}

func init() {
	// reasons for which the reference left evaluations undefined, as counters
	core.UnitEndHooks = append(core.UnitEndHooks, func(r *core.Reporter) {
		for why, n := range ref.DomainStats {
			r.Count("undefined: "+why, n)
			delete(ref.DomainStats, why)
		}
	})
}

// ---- stores --------------------------------------------------------------

// (the empty key is a key like any other; it is selected by bit 6 of a store mask)
var c01Keys = []string{"a", "ab", "abb", "b", "ba", "c", ""}
var c01NumVals = []string{"1", "2", "10", "1", "2", "10", "2"}
// (key b holds the empty value: stored, but of length 0)
var c01MixVals = []string{"a", "1", "ab", "", "a", "10", "b"}

// subsetStore: the sub-store of c01Keys selected by mask with the given values.
func subsetStore(mask int, vals []string) []store.Pair {
	var ps []store.Pair
	for i, k := range c01Keys {
		if mask&(1<<i) != 0 {
			ps = append(ps, store.Pair{K: k, V: vals[i]})
		}
	}
	return ps
}

// bigStore: n pairs k000.. with values cycling through vals.
func bigStore(n int, vals []string) []store.Pair {
	ps := make([]store.Pair, n)
	for i := range ps {
		ps[i] = store.Pair{K: fmt.Sprintf("a%03d", i), V: vals[i%len(vals)]}
	}
	return ps
}

// ---- reference evaluation of a predicate over a store ---------------------

// refSelect returns the pairs of ps (key order) on which pred is true, or a
// domain error if pred is not evaluable on some pair.
func refSelect(pred *ref.Expr, ps []store.Pair, alias map[string]*ref.Expr) ([]store.Pair, error) {
	var out []store.Pair
	for _, p := range ps {
		v, err := ref.Eval(pred, &ref.Env{Key: p.K, Value: p.V, Alias: alias})
		if err != nil {
			return nil, err
		}
		if v.K != 'B' {
			return nil, &ref.ErrDomain{Why: "predicate is not boolean"}
		}
		if v.B {
			out = append(out, p)
		}
	}
	return out, nil
}

// boolChildren lists sub-expressions of boolean type that can replace e in a
// reduction step (children of logical connectives).
func boolSimplifications(e *ref.Expr) []*ref.Expr {
	var out []*ref.Expr
	switch e.K {
	case "not":
		out = append(out, e.A[0].Clone())
		for _, s := range boolSimplifications(e.A[0]) {
			out = append(out, ref.Not(s))
		}
	case "bin":
		switch e.Op {
		case "&", "|", "and", "or", "AND", "OR":
			out = append(out, e.A[0].Clone(), e.A[1].Clone())
			for _, s := range boolSimplifications(e.A[0]) {
				out = append(out, ref.Bin(e.Op, s, e.A[1].Clone()))
			}
			for _, s := range boolSimplifications(e.A[1]) {
				out = append(out, ref.Bin(e.Op, e.A[0].Clone(), s))
			}
		}
	case "in":
		if len(e.A) > 2 {
			for i := 1; i < len(e.A); i++ {
				c := e.Clone()
				c.A = append(c.A[:i:i], c.A[i+1:]...)
				out = append(out, c)
			}
		}
	}
	return out
}

func dropOnePair(ps []store.Pair) [][]store.Pair {
	var out [][]store.Pair
	for i := range ps {
		c := append([]store.Pair(nil), ps[:i]...)
		c = append(c, ps[i+1:]...)
		out = append(out, c)
	}
	return out
}
