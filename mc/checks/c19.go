package checks

import (
	"encoding/json"
	"fmt"
	"os"
	"os/exec"
	"runtime/debug"
	"sort"
	"strings"
	"sync"

	"github.com/c4pt0r/kvql"

	"verif/mc/core"
	"verif/mc/drv"
	"verif/mc/sched"
	"verif/mc/store"
)

// C19 — independent statements can run concurrently without races or interference.

// c19SetHook installs the package-level-variable access hook of the
// instrumented kvql build (set by c19_instr.go under build tag verifinstr;
// nil in the plain build: storage-call granularity only).
var c19SetHook func(h func(name string, write bool, site string))

// c19SetHeapHook installs the heap-write hook of the instrumented kvql (every
// assignment through a pointer, field, slice element or map element).
var c19SetHeapHook func(h func(addr uintptr, site string))

type C19Thread struct {
	Stmts []string `json:"stmts"`
	Store int      `json:"store"` // index into the scenario's stores (threads naming the same index share it)
	Mode  string   `json:"mode"`
}

type C19Scenario struct {
	Name    string         `json:"name"`
	Stores  [][]store.Pair `json:"stores"`
	Threads []C19Thread    `json:"threads"`
	// SharedOptimizer: the plans are built up front, one after the other, by ONE
	// Optimizer value per distinct statement text (a caller that keeps an
	// Optimizer and asks it for a plan per request); the threads then only
	// execute their own plans, each with its own ExecuteCtx
	SharedOptimizer bool `json:"shared_optimizer,omitempty"`
	// KeptSlices: the stores hand out the slices they keep (store.NewKept), and
	// every thread reads the rows of a poll only after a further scheduling point
	KeptSlices bool `json:"kept_slices,omitempty"`
}

func (sc *C19Scenario) newStore(i int) *store.MemStore {
	if sc.KeptSlices {
		return store.NewKept(sc.Stores[i])
	}
	return store.New(sc.Stores[i])
}

type c19Case struct {
	Scenario string `json:"scenario"`
	Schedule []int  `json:"schedule"`
}

func (c *c19Case) text() string {
	var b strings.Builder
	for _, x := range c.Schedule {
		b.WriteByte(byte('0' + x))
	}
	return c.Scenario + " schedule=" + b.String()
}

func c19Data() []store.Pair {
	return []store.Pair{{K: "a1", V: "1"}, {K: "a2", V: "2,x"}, {K: "b1", V: "3"}, {K: "y1", V: "9"}}
}

func c19BaseScenarios() []C19Scenario {
	d := c19Data
	return []C19Scenario{
		{"two-aggregates", [][]store.Pair{d(), d()}, []C19Thread{
			{[]string{"select substr(key, 0, 1) as p, count(1), sum(strlen(value)) where true group by p"}, 0, drv.Row},
			{[]string{"select substr(key, 0, 1) as p, max(strlen(value)), group_concat(key, ',') where key != 'zz' group by p order by p desc"}, 1, drv.Batch}}, false, false},
		{"regexp-filters", [][]store.Pair{d(), d()}, []C19Thread{
			{[]string{"select * where key ~= '^a' & value ~= '[0-9]'"}, 0, drv.Batch},
			{[]string{"select key where value ~= '^[0-9]$' | key ~= '1$'"}, 1, drv.Row}}, false, false},
		{"aliased-projections", [][]store.Pair{d(), d()}, []C19Thread{
			{[]string{"select key, strlen(value) as l, l + 1 as m where l > 0"}, 0, drv.Batch},
			{[]string{"select key, upper(key) as u where u ^= 'A' order by u desc"}, 1, drv.Row}}, false, false},
		{"error-rendering", [][]store.Pair{d(), d()}, []C19Thread{
			{[]string{"select * where key ^= 1", "select key where int(value) / (strlen(key) - 2) > 0"}, 0, drv.Row},
			{[]string{"select key, value where key ^= 'a' limit 1"}, 1, drv.Batch}}, false, false},
		{"shared-store-readers-and-writers", [][]store.Pair{d()}, []C19Thread{
			{[]string{"select * where key ^= 'a'"}, 0, drv.Batch},
			{[]string{"put ('z1', 'v'), ('z2', upper('w' + key))"}, 0, drv.Row},
			{[]string{"delete where key ^= 'y'"}, 0, drv.Row}}, false, false},
		{"plan-building-vs-execution", [][]store.Pair{d(), d()}, []C19Thread{
			{[]string{"select key, int(value) + 1 where key in ('a1', 'b1') & is_int(value)"}, 0, drv.Row},
			{[]string{"select * where key > 'a' & key < 'c' | key = 'y1'", "select count(1) where true"}, 1, drv.Batch}}, false, false},
		{"order-limit-vs-delete", [][]store.Pair{d(), d()}, []C19Thread{
			{[]string{"select key, value where true order by value desc limit 1, 2"}, 0, drv.Batch},
			{[]string{"delete where value != '3' limit 1, 1"}, 1, drv.Row}}, false, false},
		{"same-statement-row-and-batch-shared-store", [][]store.Pair{d()}, []C19Thread{
			{[]string{"select key, split(value, ',') as s where '2' in s | key ^= 'b'"}, 0, drv.Row},
			{[]string{"select key, split(value, ',') as s where '2' in s | key ^= 'b'"}, 0, drv.Batch}}, false, false},
		{"puts-and-removes", [][]store.Pair{d(), d()}, []C19Thread{
			{[]string{"put ('k1', 'v1')", "remove 'a1', 'a2'"}, 0, drv.Row},
			{[]string{"put ('k1', join('-', 1, 2)), ('k2', lower('V2'))"}, 1, drv.Batch}}, false, false},
		{"scalar-and-aggregate-registries", [][]store.Pair{d(), d()}, []C19Thread{
			{[]string{"select key, l2_distance(list(1, 2), list(strlen(key), 2)), json(value)['a'] where is_float(value) | true"}, 0, drv.Batch},
			{[]string{"select avg(strlen(value)), min(key), json_arrayagg(key), quantile(strlen(value), 0.5) where true"}, 1, drv.Row}}, false, false},
		{"execution-errors", [][]store.Pair{d(), d()}, []C19Thread{
			{[]string{"select key where value between 'b' and 'a'"}, 0, drv.Batch},
			{[]string{"select key where l2_distance(list(1), list(1, 2)) > 0"}, 1, drv.Row}}, false, false},
		// the same kinds of failure on both sides: an error value handed out by
		// the library must belong to the statement that failed
		{"same-errors-both-sides", [][]store.Pair{d(), d()}, []C19Thread{
			{[]string{"select * where key =", "select * where key in", "put ('k1', 'v1'), ('k2'", "select * where key ^= 1", "select nosuch(key) where true", "select key where 1 / (strlen(key) - 2) > 0"}, 0, drv.Row},
			{[]string{"select key, upper(value) where value !=", "select * where key ^= 'a' & value in", "put ('k9'", "select key where value ^= 2", "select key where nosuch(value) = 1", "select value where 2 / (strlen(key) - 2) > 1"}, 1, drv.Batch}}, false, false},
		// plans built one after the other by one Optimizer value, executed concurrently
		{Name: "one-optimizer-two-plans", Stores: [][]store.Pair{d(), d()}, SharedOptimizer: true, Threads: []C19Thread{
			{[]string{"select substr(key, 0, 1) as p, count(1), sum(strlen(value)) + count(1) where true group by p"}, 0, drv.Row},
			{[]string{"select substr(key, 0, 1) as p, count(1), sum(strlen(value)) + count(1) where true group by p"}, 1, drv.Batch}}},
		// values built from the bytes the storage hands out (text concatenation,
		// in the filter and in the select list): each statement owns what it builds
		{Name: "concatenation-on-kept-slices", Stores: [][]store.Pair{d()}, KeptSlices: true, Threads: []C19Thread{
			{[]string{"select key, value + '-A', key + value where key ^= 'a' | value + 'x' = '3x'"}, 0, drv.Batch},
			{[]string{"select key, value + '-BB' as x where x != '9-BB'"}, 0, drv.Batch}}},
		// JSON documents written in unusual ways (leading blanks, a line feed) next
		// to values that are no documents at all: what json() makes of one value
		// must not reach another statement's values
		{"json-over-odd-values", [][]store.Pair{
			{{K: "a1", V: ` {"tag":"A","n":"7"}`}, {K: "a2", V: "\n{\"tag\":\"A2\"}"}, {K: "a3", V: `{"tag":"x","n":"1"}`}},
			{{K: "p1", V: "plain"}, {K: "p2", V: ""}, {K: "p3", V: "[1,2]"}, {K: "p4", V: "12"}, {K: "p5", V: `{"tag":"own"}`}, {K: "p6", V: "{broken"}}}, []C19Thread{
			{[]string{"select key, json(value)['tag'], json(value)['n'] where true"}, 0, drv.Batch},
			{[]string{"select key, json(value)['tag'], json(value)['n'] where json(value)['tag'] != 'zz'"}, 1, drv.Row}}, false, false},
		// the same functions of the function table on both sides, each thread
		// with arguments and data of its own (a function value is shared by
		// every statement that calls it: what it keeps between two calls, or
		// between the rows of a chunk, must not be visible)
		{"list-functions-both-sides", [][]store.Pair{
			{{K: "a1", V: "1"}, {K: "a2", V: "2"}, {K: "a3", V: "3"}},
			{{K: "b1", V: "10"}, {K: "b2", V: "20"}, {K: "b3", V: "30"}, {K: "b4", V: "40"}}}, []C19Thread{
			{[]string{"select flist(value, 2), ilist(value, 3), list(value, 'x'), split(key, '1'), join('-', key, value) where true"}, 0, drv.Batch},
			{[]string{"select flist(value, 7), ilist(value, 8), list(value, 'y'), split(key, '2'), join('+', value, key) where true"}, 1, drv.Batch}}, false, false},
		{"scalar-functions-both-sides", [][]store.Pair{
			{{K: "a1", V: "1"}, {K: "a2", V: "2.5"}, {K: "a3", V: "x"}},
			{{K: "B1", V: "10"}, {K: "B2", V: "20.5"}, {K: "B3", V: "Y"}, {K: "B4", V: "40"}}}, []C19Thread{
			{[]string{"select upper(key), lower(value), strlen(value), substr(key, 0, 1), is_int(value), is_float(value), str(strlen(key)), int_list(1, 2)[0], float_list(0.5)[0], l2_distance(list(1, 2), list(strlen(value), 1)) where true"}, 0, drv.Batch},
			{[]string{"select upper(value), lower(key), strlen(key), substr(key, 1, 2), is_int(key), is_float(key), str(strlen(value)), int_list(3, 4)[1], float_list(1.5)[0], cosine_distance(list(1, 2), list(strlen(value), 3)) where true"}, 1, drv.Batch}}, false, false},
		{"three-access-paths", [][]store.Pair{d()}, []C19Thread{
			{[]string{"select * where key in ('a1', 'y1', 'zz')"}, 0, drv.Row},
			{[]string{"select * where key ^= 'a'"}, 0, drv.Batch},
			{[]string{"select key where key between 'a2' and 'b9' order by key desc"}, 0, drv.Row}}, false, false},
	}
}

// C19Scenarios: every base scenario in three mode assignments (as written,
// all threads row-at-a-time, all threads in batches), so that every pair of
// threads meets in both iteration modes.
func C19Scenarios() []C19Scenario {
	var out []C19Scenario
	for _, sc := range c19BaseScenarios() {
		out = append(out, sc)
		for _, mode := range []string{drv.Row, drv.Batch} {
			v := C19Scenario{Name: sc.Name + "/all-" + mode, Stores: sc.Stores, SharedOptimizer: sc.SharedOptimizer, KeptSlices: sc.KeptSlices}
			same := true
			for _, th := range sc.Threads {
				if th.Mode != mode {
					same = false
				}
				v.Threads = append(v.Threads, C19Thread{Stmts: th.Stmts, Store: th.Store, Mode: mode})
			}
			if !same {
				out = append(out, v)
			}
		}
	}
	return out
}

// c19RunStmts executes a thread's statements and renders its observable result.
func c19RunStmts(th C19Thread, st kvql.Storage, point func(string)) string {
	return c19RunStmtsPre(th, st, point, nil)
}

// c19Prebuild: for a SharedOptimizer scenario, the plans of every thread,
// built sequentially by one Optimizer per distinct statement text.
func c19Prebuild(sc C19Scenario, sts []kvql.Storage) [][]kvql.FinalPlan {
	if !sc.SharedOptimizer {
		return nil
	}
	opts := map[string]*kvql.Optimizer{}
	pre := make([][]kvql.FinalPlan, len(sc.Threads))
	for i, th := range sc.Threads {
		for _, q := range th.Stmts {
			o := opts[q]
			if o == nil {
				o = kvql.NewOptimizer(q)
				opts[q] = o
			}
			plan, err := o.BuildPlan(sts[th.Store])
			if err != nil {
				plan = nil
			}
			pre[i] = append(pre[i], plan)
		}
	}
	return pre
}

func c19RunStmtsPre(th C19Thread, st kvql.Storage, point func(string), pre []kvql.FinalPlan) string {
	return c19RunStmtsLate(th, st, point, pre, false)
}

// late: the rows of a poll are read after a further scheduling point.
func c19RunStmtsLate(th C19Thread, st kvql.Storage, point func(string), pre []kvql.FinalPlan, late bool) string {
	var out []string
	for qi, q := range th.Stmts {
		if point != nil {
			point("build:" + q)
		}
		var o *drv.Outcome
		opt := drv.Opt{Mode: th.Mode}
		if late && point != nil {
			opt.AfterPoll = func() { point("rows:" + q) }
		}
		if pre != nil && pre[qi] != nil {
			o = &drv.Outcome{Plan: pre[qi]}
			drv.Drain(pre[qi], opt, o)
		} else {
			o = drv.Run(q, st, opt)
		}
		s := o.Describe()
		if err := o.Err(); err != nil {
			if qb, ok := err.(kvql.QueryBinder); ok {
				qb.BindQuery(q)
				if point != nil {
					point("render:" + q) // a caller binds, then formats later
				}
				s += " || " + strings.ReplaceAll(err.Error(), "\n", "\\n")
			}
		}
		out = append(out, s)
	}
	return strings.Join(out, " ## ")
}

// C19Solo: every thread alone on a fresh copy of the initial stores.
func C19Solo(sc C19Scenario) []string {
	res := make([]string, len(sc.Threads))
	for i, th := range sc.Threads {
		st := sc.newStore(th.Store)
		st.NoLog = true
		res[i] = c19RunStmts(th, st, nil)
	}
	return res
}

// C19Sequential: final contents of the stores after the threads ran one after another.
func C19Sequential(sc C19Scenario) []string {
	sts := make([]*store.MemStore, len(sc.Stores))
	for i := range sc.Stores {
		sts[i] = sc.newStore(i)
		sts[i].NoLog = true
	}
	for _, th := range sc.Threads {
		c19RunStmts(th, sts[th.Store], nil)
	}
	out := make([]string, len(sts))
	for i, s := range sts {
		out[i] = s.Canon()
	}
	return out
}

type c19 struct{}

func init() { core.Register(c19{}) }

func (c19) Info() core.Info {
	return core.Info{
		ID:    "C19",
		Title: "Independent statements can run concurrently without races or interference",
		Level: "model_checking",
		Rule: fmt.Sprint(len(c19BaseScenarios())) + " scenarios (each in three iteration-mode assignments: mixed, all row, all batch) of 2..3 statement threads chosen so that the threads meet on every piece of library-wide state (function and aggregate registries, batch size, cache switch, error padding, name tables) and on shared storage (readers with a put and a delete on disjoint key ranges); each thread parses, plans, executes and renders on its own goroutine under a cooperative scheduler whose scheduling points are every Storage/Cursor call and every access to a package-level variable (instrumented at check time into a build overlay); ALL schedules with at most 2 (thorough: 3) preemptions are explored depth-first (iterative context bounding). " +
			"Oracle on every schedule: each thread's rows / errors / rendered messages equal its solo run and the final stores equal a sequential run; conflict monitor: no package-level variable is written by one thread and accessed by another (kvql has no synchronisation, so such a pair is a data race), and - heap-write monitor, instrumented the same way at every assignment through a pointer, field, slice element or map element of the library, with the collector off during an execution - no heap object is written by two different statement threads within one execution; no panic. A supporting, free-running pass of the same bodies under the Go race detector (not the deciding step) looks for unsynchronised heap sharing the scheduler cannot see. Non-trivial: schedules that switch between live threads. Distinct: (scenario, schedule).",
		Assumptions: []string{
			"the storage is thread-safe (the cooperative scheduler switches only at storage-call boundaries; the free-running pass uses a mutex-protected store)",
			"memory-model effects below the granularity of scheduling points are outside what a cooperative scheduler decides; the race-detector pass is sampled, supporting evidence",
			"states = scheduling decisions taken, transitions = thread steps between points; every schedule is executed on the real code",
			"failures are not re-confirmed by replays inside one process: a race on lazily initialised package state is only observable on its first use in a process; harness determinism is established by the per-scenario self-test (default schedule twice, identical observations)",
		},
		SkipConfirm: true,
	}
}

const c19Shards = 8

func (c19) Units(t core.Tier) int { return len(C19Scenarios()) * c19Shards }

type c19Monitor struct {
	writers map[string]map[int]string
	readers map[string]map[int]string
}

func (m *c19Monitor) record(tid int, name string, write bool, site string) {
	tgt := m.readers
	if write {
		tgt = m.writers
	}
	if tgt[name] == nil {
		tgt[name] = map[int]string{}
	}
	if _, ok := tgt[name][tid]; !ok {
		tgt[name][tid] = site
	}
}

func (m *c19Monitor) conflicts() []string {
	var out []string
	for name, ws := range m.writers {
		for w, wsite := range ws {
			for r, rsite := range m.readers[name] {
				if r != w {
					out = append(out, fmt.Sprintf("%s written by thread %d at %s and read by thread %d at %s", name, w, wsite, r, rsite))
				}
			}
			for w2, w2site := range ws {
				if w2 > w {
					out = append(out, fmt.Sprintf("%s written by thread %d at %s and by thread %d at %s", name, w, wsite, w2, w2site))
				}
			}
		}
	}
	sort.Strings(out)
	return out
}

// c19Execute runs one schedule of a scenario.
type c19Obs struct {
	results       []string
	stores        []string
	conflicts     []string
	panics        []string
	points        int
	labels        string
	varPoints     int
	heapWrites    int
	heapConflicts []string
	keptDamage    []string
}

type c19HeapW struct {
	tid  int
	site string
}

func newC19Monitor() *c19Monitor {
	return &c19Monitor{writers: map[string]map[int]string{}, readers: map[string]map[int]string{}}
}

// c19SoloMonitored: the solo runs, with the access hook recording which
// package-level variables each statement thread reads / writes when it runs
// alone. The monitor is cumulative over the solo runs and every explored
// schedule of a scenario: a variable that one statement writes (even only on
// first use, like a lazily filled cache) and another statement accesses is a
// data race when they run concurrently, whichever run exhibited the accesses.
func c19SoloMonitored(sc C19Scenario, mon *c19Monitor) []string {
	res := make([]string, len(sc.Threads))
	for i, th := range sc.Threads {
		st := sc.newStore(th.Store)
		st.NoLog = true
		if c19SetHook != nil {
			i := i
			c19SetHook(func(name string, write bool, site string) { mon.record(i, name, write, site) })
		}
		res[i] = c19RunStmts(th, st, nil)
		if c19SetHook != nil {
			c19SetHook(nil)
		}
	}
	return res
}

func c19Execute(sc C19Scenario, prefix []int, mon *c19Monitor) (*sched.Exec, *c19Obs, error) {
	obs := &c19Obs{results: make([]string, len(sc.Threads))}
	if mon == nil {
		mon = newC19Monitor()
	}
	sts := make([]*store.MemStore, len(sc.Stores))
	for i := range sc.Stores {
		sts[i] = sc.newStore(i)
		sts[i].NoLog = true
	}
	var ex *sched.Exec
	var pre [][]kvql.FinalPlan
	if sc.SharedOptimizer {
		ks := make([]kvql.Storage, len(sts))
		for i := range sts {
			ks[i] = sts[i]
		}
		pre = c19Prebuild(sc, ks)
	}
	bodies := make([]func(e *sched.Exec, id int), len(sc.Threads))
	for i, th := range sc.Threads {
		i, th := i, th
		bodies[i] = func(e *sched.Exec, id int) {
			var mine []kvql.FinalPlan
			if pre != nil {
				mine = pre[i]
			}
			obs.results[i] = c19RunStmtsLate(th, sts[th.Store], e.Point, mine, sc.KeptSlices)
		}
	}
	// the hooks need the Exec before Run returns: install them through a holder
	holder := &struct{ e *sched.Exec }{}
	for _, s := range sts {
		s.Yield = func(op string) {
			if holder.e != nil {
				holder.e.Point("store:" + op)
			}
		}
	}
	if c19SetHook != nil {
		c19SetHook(func(name string, write bool, site string) {
			if holder.e != nil && holder.e.Cur() >= 0 {
				mon.record(holder.e.Cur(), name, write, site)
				obs.varPoints++
				holder.e.Point("var:" + name)
			}
		})
		defer c19SetHook(nil)
	}
	if c19SetHeapHook != nil {
		// Heap-write monitor, per execution: an address written by two
		// different statement threads is memory shared between statements
		// (kvql has no synchronisation, so that is a data race). The collector
		// is off during the execution so that no address is recycled.
		heap := map[uintptr]c19HeapW{}
		seenConf := map[string]bool{}
		old := debug.SetGCPercent(-1)
		defer debug.SetGCPercent(old)
		c19SetHeapHook(func(addr uintptr, site string) {
			if holder.e == nil || holder.e.Cur() < 0 {
				return
			}
			obs.heapWrites++
			tid := holder.e.Cur()
			if w, ok := heap[addr]; !ok {
				heap[addr] = c19HeapW{tid, site}
			} else if w.tid != tid {
				a, b := w, c19HeapW{tid, site}
				if a.tid > b.tid {
					a, b = b, a
				}
				k := fmt.Sprintf("heap object written by thread %d at %s and by thread %d at %s", a.tid, a.site, b.tid, b.site)
				if !seenConf[k] {
					seenConf[k] = true
					obs.heapConflicts = append(obs.heapConflicts, k)
				}
			}
		})
		defer c19SetHeapHook(nil)
	}
	wrapped := make([]func(e *sched.Exec, id int), len(bodies))
	for i := range bodies {
		b := bodies[i]
		wrapped[i] = func(e *sched.Exec, id int) {
			holder.e = e
			b(e, id)
		}
	}
	var err error
	ex, err = sched.Run(wrapped, prefix)
	if err != nil {
		return ex, obs, err
	}
	for _, s := range sts {
		obs.stores = append(obs.stores, s.Canon())
		if msg := s.KeptIntact(); msg != "" {
			obs.keptDamage = append(obs.keptDamage, msg)
		}
	}
	obs.conflicts = mon.conflicts()
	sort.Strings(obs.heapConflicts)
	obs.panics = ex.Panics
	obs.points = len(ex.Points)
	var lb strings.Builder
	for _, p := range ex.Points {
		lb.WriteString(p.Label)
		lb.WriteByte(';')
	}
	obs.labels = lb.String()
	return ex, obs, nil
}

func c19Judge(sc C19Scenario, solo, seq []string, obs *c19Obs, c *c19Case) *core.Failure {
	mk := func(leg, sig, exp, o string) *core.Failure {
		return &core.Failure{Property: "C19", Leg: leg, Sig: sig, Case: c.text(), Data: core.MustJSON(c), Expected: exp, Observed: o}
	}
	if len(obs.panics) > 0 {
		return mk("no-interference", "panic", "no panic", strings.Join(obs.panics, " ; "))
	}
	if len(obs.conflicts) > 0 && os.Getenv("VERIF_C19_SYNC") != "1" {
		// (when the library itself uses sync / atomic an access pair may be
		// ordered; then only the race-detector pass and the result comparison decide)
		return mk("conflict-monitor", "package-variable-race:"+strings.SplitN(obs.conflicts[0], " ", 2)[0], "no package-level variable written by one thread and accessed by another", strings.Join(obs.conflicts, " ; "))
	}
	if len(obs.heapConflicts) > 0 && os.Getenv("VERIF_C19_SYNC") != "1" {
		return mk("conflict-monitor", "shared-heap-write:"+obs.heapConflicts[0], "no heap object written by two statement threads", strings.Join(obs.heapConflicts, " ; "))
	}
	if len(obs.keptDamage) > 0 {
		return mk("no-interference", "storage-buffer-written", "the slices a storage hands out are read, never written", strings.Join(obs.keptDamage, " ; "))
	}
	for i := range solo {
		if obs.results[i] != solo[i] {
			return mk("no-interference", "result-differs-from-solo-run", fmt.Sprintf("thread %d alone: %s", i, solo[i]), fmt.Sprintf("thread %d under this schedule: %s", i, obs.results[i]))
		}
	}
	for i := range seq {
		if obs.stores[i] != seq[i] {
			return mk("no-interference", "final-store-differs", "store "+fmt.Sprint(i)+" after a sequential run: "+seq[i], obs.stores[i])
		}
	}
	return nil
}

func (c19) RunUnit(t core.Tier, u int, r *core.Reporter) {
	scs := C19Scenarios()
	sc := scs[u/c19Shards]
	shard := u % c19Shards
	bound := 2
	if t == core.Thorough {
		bound = 3
	}
	kvql.PlanBatchSize = 2
	mon := newC19Monitor()
	solo := c19SoloMonitored(sc, mon)
	seq := C19Sequential(sc)
	// determinism self-test: the default schedule twice
	_, o1, err1 := c19Execute(sc, nil, mon)
	_, o2, err2 := c19Execute(sc, nil, mon)
	if err1 != nil || err2 != nil || o1.labels != o2.labels || strings.Join(o1.results, "|") != strings.Join(o2.results, "|") {
		r.Fail(core.Failure{Property: "C19", Leg: "harness", Sig: "nondeterministic-harness", Case: sc.Name, Observed: fmt.Sprint(err1, err2)})
		return
	}
	instr := int64(0)
	if c19SetHook != nil {
		instr = 1
	}
	r.Max("max_instrumented_build", instr)
	stopped := false
	// explicit DFS (needs the observation of each execution, so it is driven here)
	var nSched, nConc, nPoints, varPts, heapW int64
	maxPre := 0
	var rec func(prefix []int, depth int)
	rec = func(prefix []int, depth int) {
		if stopped {
			return
		}
		c := c19Case{Scenario: sc.Name, Schedule: prefix}
		var ex *sched.Exec
		var obs *c19Obs
		var err error
		if !r.Begin(func() *core.Failure {
			return &core.Failure{Property: "C19", Leg: "no-interference", Case: c.text(), Data: core.MustJSON(c)}
		}) {
			return
		}
		ex, obs, err = c19Execute(sc, prefix, mon)
		r.Evals(1)
		if err != nil {
			r.Fail(core.Failure{Property: "C19", Leg: "harness", Sig: "replay-divergence", Case: c.text(), Observed: err.Error()})
			stopped = true
			return
		}
		full := c19Case{Scenario: sc.Name, Schedule: ex.Choices()}
		nSched++
		nPoints += int64(len(ex.Points))
		varPts += int64(obs.varPoints)
		heapW += int64(obs.heapWrites)
		pre := 0
		for _, p := range ex.Points {
			if p.RunningEnabled && p.Chosen != 0 {
				pre++
			}
		}
		if pre > maxPre {
			maxPre = pre
		}
		status := "ok"
		if f := c19Judge(sc, solo, seq, obs, &full); f != nil {
			status = "violation:" + f.Sig
			r.Fail(*f)
		}
		if pre > 0 {
			nConc++
		}
		r.Case(full.text(), pre > 0, status)
		r.Observed(strings.Join(obs.results, "|") + strings.Join(obs.stores, "|"))
		for i := len(prefix); i < len(ex.Points); i++ {
			if depth == 0 && i%c19Shards != shard {
				continue
			}
			p := ex.Points[i]
			cost := 0
			for k := 0; k < i; k++ {
				if ex.Points[k].RunningEnabled && ex.Points[k].Chosen != 0 {
					cost++
				}
			}
			if p.RunningEnabled {
				cost++
			}
			if cost > bound {
				continue
			}
			for alt := 1; alt < len(p.Enabled); alt++ {
				np := append(append([]int{}, ex.Choices()[:i]...), alt)
				rec(np, depth+1)
			}
		}
	}
	rec(nil, 0)
	r.Count("schedules", nSched)
	r.Count("states", nPoints)
	r.Count("transitions", nPoints)
	r.Count("schedules_with_preemption", nConc)
	r.Count("package_variable_access_points", varPts)
	r.Count("heap_writes_monitored", heapW)
	r.Max("max_preemptions_completed", int64(maxPre))
}

func (c19) Replay(data json.RawMessage) *core.Failure {
	var c c19Case
	if err := json.Unmarshal(data, &c); err != nil {
		return nil
	}
	for _, sc := range C19Scenarios() {
		if sc.Name == c.Scenario {
			kvql.PlanBatchSize = 2
			mon := newC19Monitor()
			solo := c19SoloMonitored(sc, mon)
			_, obs, err := c19Execute(sc, c.Schedule, mon)
			if err != nil {
				return &core.Failure{Property: "C19", Leg: "harness", Sig: "replay-divergence", Case: c.text(), Data: data, Observed: err.Error()}
			}
			return c19Judge(sc, solo, C19Sequential(sc), obs, &c)
		}
	}
	return nil
}

// ---- supporting free-running race-detector pass --------------------------------

// PostRun runs the race-detector binary (built by run.sh) and reports races.
func (c19) PostRun(t core.Tier) ([]core.Failure, map[string]any) {
	bin := os.Getenv("VERIF_RACE_BIN")
	notes := map[string]any{}
	if bin == "" {
		notes["race_pass"] = "skipped: no race binary (VERIF_RACE_BIN unset)"
		return nil, notes
	}
	iters := "150"
	if t == core.Thorough {
		iters = "1500"
	}
	cmd := exec.Command(bin, iters)
	cmd.Env = append(os.Environ(), "GORACE=halt_on_error=0 exitcode=66")
	out, err := cmd.CombinedOutput()
	text := string(out)
	notes["race_pass_output_tail"] = tail(text, 600)
	if strings.Contains(text, "WARNING: DATA RACE") {
		first := text[strings.Index(text, "WARNING: DATA RACE"):]
		if len(first) > 3000 {
			first = first[:3000]
		}
		return []core.Failure{{Property: "C19", Leg: "race-detector", Sig: "data-race", Case: "free-running race-detector pass over the scenario bodies", Data: core.MustJSON(map[string]string{"race_pass": iters}),
			Expected: "no data race reported", Observed: first}}, notes
	}
	if strings.Contains(text, "INTERFERENCE") {
		return []core.Failure{{Property: "C19", Leg: "race-detector", Sig: "result-differs-from-solo-run", Case: "free-running pass over the scenario bodies", Data: core.MustJSON(map[string]string{"race_pass": iters}),
			Expected: "each thread's result equals its solo run", Observed: tail(text, 1500)}}, notes
	}
	if err != nil {
		notes["race_pass"] = "race binary failed to run: " + err.Error()
	} else {
		notes["race_pass"] = "no race reported"
	}
	return nil, notes
}

func tail(s string, n int) string {
	if len(s) > n {
		return s[len(s)-n:]
	}
	return s
}

// C19RunFree runs every scenario free on goroutines (used by cmd/racepass).
func C19RunFree(iters int, copies int) (interference []string) {
	kvql.PlanBatchSize = 2
	for _, sc := range C19Scenarios() {
		// the solo results are computed AFTER the concurrent iterations so that
		// the first concurrent iteration meets library state as cold as possible
		var solo []string
		type got struct {
			i   int
			res string
		}
		var all []got
		shared := map[int]int{}
		for _, th := range sc.Threads {
			shared[th.Store]++
		}
		mutating := false
		for _, th := range sc.Threads {
			for _, q := range th.Stmts {
				l := strings.ToLower(q)
				if strings.HasPrefix(l, "put") || strings.HasPrefix(l, "remove") || strings.HasPrefix(l, "delete") {
					mutating = true
				}
			}
		}
		cp := copies
		if mutating {
			cp = 1 // replicas of writers would interfere with each other by design
		}
		for it := 0; it < iters; it++ {
			sts := make([]kvql.Storage, len(sc.Stores))
			for i := range sc.Stores {
				m := sc.newStore(i)
				m.NoLog = true
				if shared[i] > 1 && mutating {
					sts[i] = store.NewLocked(m)
				} else if mutating {
					sts[i] = store.NewLocked(m)
				} else {
					sts[i] = m // read-only: lock-free, no happens-before edge between statement goroutines
				}
			}
			pre := c19Prebuild(sc, sts)
			var wg sync.WaitGroup
			var mu sync.Mutex
			for c := 0; c < cp; c++ {
				for i, th := range sc.Threads {
					i, th, c := i, th, c
					wg.Add(1)
					go func() {
						defer wg.Done()
						var mine []kvql.FinalPlan
						if pre != nil && c == 0 {
							mine = pre[i]
						}
						res := c19RunStmtsPre(th, sts[th.Store], nil, mine)
						mu.Lock()
						all = append(all, got{i, res})
						mu.Unlock()
					}()
				}
			}
			wg.Wait()
		}
		solo = C19Solo(sc)
		seen := map[string]bool{}
		for _, g := range all {
			if g.res != solo[g.i] && !seen[fmt.Sprint(g.i, g.res)] {
				seen[fmt.Sprint(g.i, g.res)] = true
				interference = append(interference, fmt.Sprintf("INTERFERENCE scenario=%s thread=%d: alone %q, concurrently %q", sc.Name, g.i, solo[g.i], g.res))
			}
		}
	}
	return interference
}
