package checks

import (
	"encoding/json"
	"fmt"
	"strings"

	"github.com/c4pt0r/kvql"

	"verif/mc/core"
	"verif/mc/drv"
	"verif/mc/ref"
	"verif/mc/store"
)

// C15 — parsing follows the documented precedence; printed form re-parses identically.

type c15Case struct {
	Expr  *ref.Expr `json:"expr"`
	Type  string    `json:"type"` // B N T
	Style ref.Style `json:"style"`
	// Fields: the select list of a type-B case whose expression refers to named fields ("" = *)
	Fields string `json:"fields,omitempty"`
}

func (c *c15Case) sel() string {
	if c.Fields != "" {
		return c.Fields
	}
	return "*"
}

func (c *c15Case) query() string {
	e := c.Expr.RenderStyle(c.Style)
	if c.Type == "B" {
		return "select " + c.sel() + " where " + e
	}
	return "select " + e + " where true"
}

func (c *c15Case) text() string { return c.query() }

type c15 struct{}

func init() { core.Register(c15{}) }

func (c15) Info() core.Info {
	return core.Info{
		ID:    "C15",
		Title: "Parsing follows the documented precedence; printed form re-parses identically",
		Level: "exploration",
		Rule: "all well-typed expression trees with <= 3 (thorough: 4) binary operators over every operator (| or & and = != ^= ~= > >= < <= in between + - * /), unary !, calls and [n] chains on typed leaves; each tree is rendered with minimal parentheses (documented precedence table, left associativity), fully parenthesised, with one redundant pair around every sub-tree in turn, and with lower / UPPER / Capitalised keywords and word operators. " +
			"Oracle: the parsed AST (exported node fields) equals the generating tree for every rendering; Expression.String() of the parsed expression re-parses to the same tree; the filter text shown by Explain() re-parses to the tree of the filter the scan node executes. Non-trivial: the minimal rendering needs fewer parentheses than the full one. Distinct: the query text." +
			" Also: IN over a list-valued expression (x in split(value, ','), n in list(1, 2)) as a Boolean tree at every position.",
		Assumptions: []string{"only well-typed trees can be observed (the checker runs inside Parse); the generator avoids the two shapes the engine refuses for reasons outside this property (a `!` operand of a comparison, the same field on both sides of a comparison), so every generated tree must be accepted and a rejection is a violation", "literals contain no quote characters (the language has no escape)"},
	}
}

// ---- kvql AST -> ref.Expr ----------------------------------------------------

func fromKvql(e kvql.Expression) *ref.Expr {
	switch v := e.(type) {
	case *kvql.BinaryOpExpr:
		op := strings.ToLower(kvql.OperatorToString[v.Op])
		l := fromKvql(v.Left)
		switch v.Op {
		case kvql.In:
			if lst, ok := v.Right.(*kvql.ListExpr); ok {
				out := &ref.Expr{K: "in", A: []*ref.Expr{l}}
				for _, it := range lst.List {
					out.A = append(out.A, fromKvql(it))
				}
				return out
			}
			return ref.InX(l, fromKvql(v.Right))
		case kvql.Between:
			if lst, ok := v.Right.(*kvql.ListExpr); ok && len(lst.List) == 2 {
				return ref.Btw(l, fromKvql(lst.List[0]), fromKvql(lst.List[1]))
			}
		}
		return ref.Bin(op, l, fromKvql(v.Right))
	case *kvql.NotExpr:
		return ref.Not(fromKvql(v.Right))
	case *kvql.FunctionCallExpr:
		name := "?"
		if n, ok := v.Name.(*kvql.NameExpr); ok {
			name = n.Data
		}
		out := &ref.Expr{K: "call", Op: name}
		for _, a := range v.Args {
			out.A = append(out.A, fromKvql(a))
		}
		return out
	case *kvql.FieldAccessExpr:
		return ref.Idx(fromKvql(v.Left), fromKvql(v.FieldName))
	case *kvql.FieldExpr:
		if v.Field == kvql.KeyKW {
			return ref.Key()
		}
		return ref.Value()
	case *kvql.StringExpr:
		return ref.S(v.Data)
	case *kvql.NumberExpr:
		return ref.N(v.Int)
	case *kvql.FloatExpr:
		return ref.Fl(v.Float)
	case *kvql.BoolExpr:
		return ref.Bl(v.Bool)
	case *kvql.NameExpr:
		return ref.Name(v.Data)
	case *kvql.FieldReferenceExpr:
		return ref.Name(v.Name.Data)
	case *kvql.ListExpr:
		out := &ref.Expr{K: "list"}
		for _, it := range v.List {
			out.A = append(out.A, fromKvql(it))
		}
		return out
	}
	return &ref.Expr{K: fmt.Sprintf("?%T", e)}
}

// notExpressible: the tree contains a folded constant the language has no
// literal for: a negative number, or a literal zero as divisor (refused by the
// checker when written out).
func notExpressible(e *ref.Expr) bool {
	if (e.K == "i" && e.I < 0) || (e.K == "f" && e.F < 0) {
		return true
	}
	if e.K == "bin" && e.Op == "/" && isZeroLit(e.A[1]) {
		return true
	}
	for _, a := range e.A {
		if notExpressible(a) {
			return true
		}
	}
	return false
}

// canonTree: a structural rendering (full parentheses, lower-case operators).
func canonTree(e *ref.Expr) string {
	var b strings.Builder
	var rec func(e *ref.Expr)
	rec = func(e *ref.Expr) {
		b.WriteString(e.K)
		switch e.K {
		case "bin", "call":
			b.WriteString(":" + strings.ToLower(e.Op))
		case "s", "name":
			b.WriteString(":" + fmt.Sprintf("%q", e.S))
		case "i":
			fmt.Fprintf(&b, ":%d", e.I)
		case "f":
			fmt.Fprintf(&b, ":%g", e.F)
		case "b":
			fmt.Fprintf(&b, ":%v", e.B)
		}
		if len(e.A) > 0 {
			b.WriteByte('(')
			for i, a := range e.A {
				if i > 0 {
					b.WriteByte(',')
				}
				rec(a)
			}
			b.WriteByte(')')
		}
	}
	rec(e)
	return b.String()
}

// parseExprOf parses q and returns the where expression (typ B) or the first
// select field.
func parseExprOf(q string, typ string) (e kvql.Expression, err error, pan string) {
	defer func() {
		if r := recover(); r != nil {
			pan = fmt.Sprint(r)
		}
	}()
	stmt, perr := kvql.NewParser(q).Parse()
	if perr != nil {
		return nil, perr, ""
	}
	sel, ok := stmt.(*kvql.SelectStmt)
	if !ok {
		return nil, fmt.Errorf("not a select"), ""
	}
	if typ == "B" {
		return sel.Where.Expr, nil, ""
	}
	if len(sel.Fields) != 1 {
		return nil, fmt.Errorf("expected one field, got %d", len(sel.Fields)), ""
	}
	return sel.Fields[0], nil, ""
}

// ---- typed generation --------------------------------------------------------

type c15Gen struct {
	memo map[string][]*ref.Expr
	lean bool // one leaf per type, no unary leaf forms (used for the largest operator count)
	mid  bool // the rich leaves without the extra float spellings (thorough tier, second-largest operator count)
}

func (g *c15Gen) leaves(t byte) []*ref.Expr {
	if g.lean {
		switch t {
		case 'N':
			return []*ref.Expr{ref.N(1)}
		case 'T':
			return []*ref.Expr{ref.Key()}
		case 'B':
			return []*ref.Expr{ref.Call("is_int", ref.Value())}
		}
	}
	switch t {
	case 'N':
		if g.mid {
			return []*ref.Expr{ref.N(1), ref.Fl(0.5), ref.Call("int", ref.Value())}
		}
		return []*ref.Expr{ref.N(1), ref.Fl(0.5), ref.Call("int", ref.Value()), ref.Fl(2500000.0), ref.Fl(0.00001)}
	case 'T':
		return []*ref.Expr{ref.Key(), ref.S("a")}
	case 'B':
		return []*ref.Expr{ref.Call("is_int", ref.Value())}
	}
	return nil
}

// trees of type t with exactly n binary operators
func (g *c15Gen) trees(t byte, n int) []*ref.Expr {
	k := fmt.Sprintf("%c%d", t, n)
	if v, ok := g.memo[k]; ok {
		return v
	}
	var out []*ref.Expr
	if n == 0 {
		out = append(out, g.leaves(t)...)
		if g.lean {
			g.memo[k] = out
			return out
		}
		// unary / primary constructions (no binary operator)
		switch t {
		case 'B':
			out = append(out, ref.Not(ref.Call("is_int", ref.Value())))
			// a run of `!`: every one negates what follows it
			out = append(out, ref.Not(ref.Not(ref.Call("is_int", ref.Value()))), ref.Not(ref.Not(ref.Not(ref.Bl(true)))))
		case 'T':
			out = append(out, ref.Call("upper", ref.Key()), ref.Idx(ref.Call("split", ref.Value(), ref.S(",")), ref.N(0)))
		case 'N':
			out = append(out, ref.Call("strlen", ref.Key()))
		}
		g.memo[k] = out
		return out
	}
	add := func(op string, lt, rt byte, nl int) {
		for _, l := range g.trees(lt, nl) {
			for _, r := range g.trees(rt, n-1-nl) {
				if ref.Prec(op) == 3 && l.K == "key" && r.K == "key" {
					// engine quirk outside this property: a comparison refuses
					// the same field on both sides
					continue
				}
				out = append(out, ref.Bin(op, l, r))
			}
		}
	}
	for nl := 0; nl < n; nl++ {
		switch t {
		case 'B':
			for _, op := range []string{"|", "or", "&", "and"} {
				add(op, 'B', 'B', nl)
			}
			for _, op := range []string{"=", "!="} {
				add(op, 'N', 'N', nl)
				add(op, 'T', 'T', nl)
				add(op, 'B', 'B', nl)
			}
			for _, op := range []string{"^=", "~="} {
				add(op, 'T', 'T', nl)
			}
			for _, op := range []string{">", ">=", "<", "<="} {
				add(op, 'N', 'N', nl)
				add(op, 'T', 'T', nl)
			}
		case 'N':
			for _, op := range []string{"+", "-", "*", "/"} {
				add(op, 'N', 'N', nl)
			}
		case 'T':
			add("+", 'T', 'T', nl)
		}
	}
	if t == 'B' {
		// in / between count as one binary operator; operands carry the rest
		for nl := 0; nl < n; nl++ {
			for _, ty := range []byte{'N', 'T'} {
				for _, l := range g.trees(ty, nl) {
					for _, r := range g.trees(ty, n-1-nl) {
						lit := g.leaves(ty)[0]
						out = append(out, ref.In(l, r, lit.Clone()))
						out = append(out, ref.Btw(l, lit.Clone(), r))
						if n-1-nl == 0 {
							out = append(out, ref.Btw(l, r, lit.Clone()))
						}
					}
				}
			}
		}
	}
	if t == 'B' {
		// IN over a list-valued expression (no parenthesised list): one binary
		// operator at comparison level, whatever follows it
		for _, l := range g.trees('T', n-1) {
			out = append(out, ref.InX(l, ref.Call("split", ref.Value(), ref.S(","))))
		}
		for _, l := range g.trees('N', n-1) {
			out = append(out, ref.InX(l, ref.Call("list", ref.N(1), ref.N(2))))
		}
	}
	// unary / call constructions around smaller trees keep the operator count
	switch t {
	case 'B':
		for _, x := range g.treesNoUnary('B', n) {
			out = append(out, ref.Not(x))
		}
		for _, x := range g.treesNoUnary('B', n) {
			out = append(out, ref.Not(ref.Not(x)))
		}
	case 'N':
		for _, x := range g.treesNoUnary('T', n) {
			out = append(out, ref.Call("strlen", x))
		}
	case 'T':
		for _, x := range g.treesNoUnary('T', n) {
			out = append(out, ref.Call("upper", x))
		}
	}
	g.memo[k] = out
	return out
}

// treesNoUnary: trees of n>=1 operators whose root is a binary construction
// (used as operands of ! and calls, to avoid unbounded unary nesting).
func (g *c15Gen) treesNoUnary(t byte, n int) []*ref.Expr {
	k := fmt.Sprintf("%c%d-nu", t, n)
	if v, ok := g.memo[k]; ok {
		return v
	}
	var out []*ref.Expr
	add := func(op string, lt, rt byte, nl int) {
		for _, l := range g.trees(lt, nl) {
			for _, r := range g.trees(rt, n-1-nl) {
				if ref.Prec(op) == 3 && (l.K == "not" || r.K == "not" || (l.K == "key" && r.K == "key")) {
					continue
				}
				out = append(out, ref.Bin(op, l, r))
			}
		}
	}
	for nl := 0; nl < n; nl++ {
		switch t {
		case 'B':
			add("|", 'B', 'B', nl)
			add("&", 'B', 'B', nl)
			add("=", 'N', 'N', nl)
			add("<", 'T', 'T', nl)
		case 'T':
			add("+", 'T', 'T', nl)
		}
	}
	g.memo[k] = out
	return out
}

var c15TreesCache = map[string][]c15Tree{}

type c15Tree struct {
	e      *ref.Expr
	t      byte
	fields string
}

func c15Trees(t core.Tier) []c15Tree {
	if v, ok := c15TreesCache[string(t)]; ok {
		return v
	}
	rich := &c15Gen{memo: map[string][]*ref.Expr{}}
	lean := &c15Gen{memo: map[string][]*ref.Expr{}, lean: true}
	mid := &c15Gen{memo: map[string][]*ref.Expr{}, mid: true}
	max := 3
	if t == core.Thorough {
		max = 4
	}
	var out []c15Tree
	seen := map[string]bool{}
	for n := 0; n <= max; n++ {
		g := rich
		if n == max {
			g = lean // the largest operator count uses one leaf per type
		} else if n == 3 {
			g = mid // thorough: three operators over the leaves without the extra float spellings
		}
		for _, ty := range []byte{'B', 'N', 'T'} {
			for _, e := range g.trees(ty, n) {
				k := canonTree(e)
				if !seen[k] {
					seen[k] = true
					out = append(out, c15Tree{e: e, t: ty})
				}
			}
		}
	}
	// text literals whose bytes a printer might be tempted to escape
	for _, lit := range []string{`^k\d$`, `a\\b`, "a\tb", `say "hi"`, "caf\xc3\xa9", "\x01\x7f", `\`, "`x`", "a\nb", "%s %d"} {
		l := func() *ref.Expr { return ref.S(lit) }
		for _, e := range []*ref.Expr{
			ref.Bin("=", ref.Key(), l()), ref.Bin("~=", ref.Key(), l()), ref.Bin("=", ref.Call("upper", l()), ref.Value()), ref.Bin("^=", ref.Bin("+", ref.Key(), l()), l()),
			ref.In(ref.Key(), l(), ref.S("a")), ref.Btw(ref.Key(), l(), l()), ref.Not(ref.Bin("!=", l(), ref.Value())),
		} {
			k := canonTree(e)
			if !seen[k] {
				seen[k] = true
				out = append(out, c15Tree{e: e, t: 'B'})
			}
		}
	}
	// calls nested inside the argument lists of calls and inside IN lists, at
	// every argument position (a printer that shares scratch space between the
	// nesting levels shows up here)
	{
		up := func(e *ref.Expr) *ref.Expr { return ref.Call("upper", e) }
		lo := func(e *ref.Expr) *ref.Expr { return ref.Call("lower", e) }
		for _, e := range []*ref.Expr{
			ref.Bin("=", ref.Call("join", ref.S("-"), up(ref.Key()), lo(ref.Value())), ref.S("K-v")),
			ref.Bin("=", ref.Call("join", lo(ref.S("X")), ref.Key(), up(ref.Call("join", ref.S("+"), ref.Value(), lo(ref.Key())))), ref.S("q")),
			ref.Bin("=", ref.Call("substr", ref.Value(), ref.Call("strlen", ref.Key()), ref.Call("strlen", up(ref.Value()))), ref.S("x")),
			ref.In(ref.Key(), ref.S("a"), up(ref.S("b")), lo(ref.S("C"))),
			ref.In(up(ref.Key()), up(ref.S("a")), ref.Call("join", ref.S(","), ref.S("p"), lo(ref.S("Q"))), ref.S("z")),
			ref.Btw(ref.Key(), lo(ref.S("A")), ref.Call("join", ref.S(""), up(ref.S("z")), lo(ref.S("Z")))),
			ref.Bin(">", ref.Call("l2_distance", ref.Call("list", ref.N(1), ref.Call("strlen", ref.Key())), ref.Call("list", ref.Call("strlen", ref.Value()), ref.N(2))), ref.N(0)),
			ref.Bin("=", ref.Idx(ref.Call("split", ref.Call("join", ref.S(","), ref.Key(), up(ref.Value())), lo(ref.S(","))), ref.N(1)), ref.S("V")),
		} {
			k := canonTree(e)
			if !seen[k] {
				seen[k] = true
				out = append(out, c15Tree{e: e, t: 'B'})
			}
		}
	}
	// number literals at and beyond the edge of the integers (an integer literal
	// that does not fit 64 bits is a float literal), with leading zeros, with a
	// fraction written in several ways
	{
		iv := func() *ref.Expr { return ref.Call("int", ref.Value()) }
		var lits []*ref.Expr
		for _, n := range []int64{9223372036854775807, 9223372036854775806, 4611686018427387904, 9007199254740993} {
			lits = append(lits, ref.N(n))
		}
		for _, t := range []string{"9223372036854775808", "9223372036854775809", "18446744073709551616", "100000000000000000000", "1.50", "007.5", "0.0625", "1000000.0"} {
			lits = append(lits, ref.FlText(t))
		}
		for _, l := range lits {
			for _, e := range []*ref.Expr{
				ref.Bin("<", iv(), l.Clone()), ref.Bin("=", l.Clone(), iv()), ref.In(iv(), l.Clone(), ref.N(1)), ref.Btw(iv(), ref.N(0), l.Clone()),
				ref.Bin(">", ref.Bin("+", iv(), l.Clone()), ref.N(0)), ref.Bin("=", ref.Call("str", l.Clone()), ref.S("x")),
			} {
				k := canonTree(e) + "|" + e.Render()
				if !seen[k] {
					seen[k] = true
					out = append(out, c15Tree{e: e, t: 'B'})
				}
			}
		}
	}
	// chains of field accesses: every subscript at its own level, in order
	{
		js := func() *ref.Expr { return ref.Call("json", ref.Value()) }
		ix := ref.Idx
		for _, e := range []*ref.Expr{
			ref.Bin("=", ix(ix(js(), ref.S("a")), ref.S("b")), ref.S("x")),
			ref.Bin("=", ix(ix(js(), ref.S("l")), ref.N(1)), ref.S("x")),
			ref.Bin("=", ix(ix(ix(js(), ref.S("a")), ref.S("b")), ref.N(0)), ref.S("x")),
			ref.Bin("=", ix(ix(ix(js(), ref.S("a")), ref.N(2)), ref.S("c")), ref.S("x")),
			ref.Bin("=", ix(ix(js(), ref.S("a")), ref.S("a")), ix(ix(js(), ref.S("b")), ref.S("a"))),
			ref.In(ix(ix(js(), ref.S("o")), ref.S("b")), ref.S("x"), ix(ix(js(), ref.S("b")), ref.S("o"))),
			ref.Bin("=", ref.Call("upper", ix(ix(ix(ix(js(), ref.S("a")), ref.S("b")), ref.S("c")), ref.N(3))), ref.S("X")),
			ref.Bin("=", ix(ix(ref.Call("json", ix(ix(js(), ref.S("p")), ref.S("q"))), ref.S("r")), ref.N(0)), ref.S("x")),
			ref.Bin("^=", ix(ix(ref.Call("split", ref.Value(), ref.S(",")), ref.N(0)), ref.N(1)), ref.S("x")),
		} {
			k := canonTree(e)
			if !seen[k] {
				seen[k] = true
				out = append(out, c15Tree{e: e, t: 'B'})
			}
		}
	}
	// references to named select fields: the printed form must name the same
	// field again, whatever the name looks like (reserved word, upper case,
	// digits, blanks, operator characters)
	for _, name := range []string{"v", "my val", "key", "value", "Val", "VALUE", "1", "in", "a-b", "select", "x.y", "true", "limit", "a b c", "ALongFieldName"} {
		nm := func() *ref.Expr { return ref.Name(name) }
		for _, e := range []*ref.Expr{
			ref.Bin("=", nm(), ref.S("x")), ref.Bin("=", ref.Call("upper", nm()), ref.S("X")), ref.Bin("=", ref.Bin("+", nm(), ref.S("a")), ref.S("xa")),
			ref.In(nm(), ref.S("x"), ref.S("y")), ref.Btw(nm(), ref.S("a"), ref.S("z")), ref.Not(ref.Bin("^=", nm(), ref.S("x"))),
			ref.Bin("&", ref.Bin("!=", ref.S("y"), nm()), ref.Bin("=", ref.Key(), ref.S("k"))),
		} {
			out = append(out, c15Tree{e, 'B', "key, value as " + ref.QuoteName(name)})
		}
		// the same name where no select field defines it (accepted inside call
		// arguments, where it stands for its own text)
		for _, e := range []*ref.Expr{
			ref.Bin("=", ref.Call("upper", nm()), ref.S("X")), ref.Bin("=", ref.Call("join", ref.S("-"), nm(), ref.Key(), nm()), ref.S("x")),
			ref.In(ref.Call("lower", nm()), ref.S("x"), ref.Call("upper", nm())),
		} {
			out = append(out, c15Tree{e: e, t: 'B'})
		}
	}
	c15TreesCache[string(t)] = out
	return out
}

const c15PerUnit = 500

func (c15) Units(t core.Tier) int { return (len(c15Trees(t)) + c15PerUnit - 1) / c15PerUnit }

func (c15) RunUnit(t core.Tier, u int, r *core.Reporter) {
	trees := c15Trees(t)
	for i := u * c15PerUnit; i < (u+1)*c15PerUnit && i < len(trees); i++ {
		tr := trees[i]
		styles := []ref.Style{{}, {Full: true}, {Upper: true}, {Mixed: true}, {Tight: true}}
		n := tr.e.Size()
		for k := 1; k <= n; k++ {
			styles = append(styles, ref.Style{Extra: k})
		}
		minimal := tr.e.RenderStyle(ref.Style{})
		full := tr.e.RenderStyle(ref.Style{Full: true})
		seen := map[string]bool{}
		for _, st := range styles {
			c := c15Case{Expr: tr.e, Type: string(tr.t), Style: st, Fields: tr.fields}
			q := c.query()
			if seen[q] {
				continue
			}
			seen[q] = true
			if !r.Begin(func() *core.Failure {
				return &core.Failure{Property: "C15", Leg: "parse-vs-tree", Case: c.text(), Data: core.MustJSON(c)}
			}) {
				continue
			}
			fs, status, ev := c15Judge(&c)
			r.Evals(ev)
			for _, f := range fs {
				status = "violation:" + f.Sig
				r.Fail(f)
			}
			r.Case(c.text(), strings.Count(minimal, "(") < strings.Count(full, "("), status)
		}
		r.Observed(canonTree(tr.e))
	}
}

func c15Judge(c *c15Case) (fails []core.Failure, status string, evals int) {
	mk := func(leg, sig, exp, obs string) core.Failure {
		return core.Failure{Property: "C15", Leg: leg, Sig: sig, Case: c.text(), Data: core.MustJSON(c), Expected: exp, Observed: obs}
	}
	want := canonTree(c.Expr)
	q := c.query()
	e, err, pan := parseExprOf(q, c.Type)
	evals++
	if pan != "" {
		return []core.Failure{mk("parse-vs-tree", "panic", want, pan)}, "", evals
	}
	if err != nil {
		// every generated tree is well typed under the documented precedence
		// (the generator avoids the engine's two known refusals): a rejection
		// means the text was parsed into a different, ill-typed tree
		return []core.Failure{mk("parse-vs-tree", "well-typed-tree-rejected", want, "rejected: "+strings.ReplaceAll(err.Error(), "\n", " "))}, "", evals
	}
	got := canonTree(fromKvql(e))
	if got != want {
		return []core.Failure{mk("parse-vs-tree", "wrong-tree", want, got)}, "", evals
	}
	status = "ok"
	// print / re-parse fix-point
	printed := e.String()
	q2 := "select " + c.sel() + " where " + printed
	if c.Type != "B" {
		q2 = "select " + printed + " where true"
	}
	e2, err2, pan2 := parseExprOf(q2, c.Type)
	evals++
	switch {
	case pan2 != "":
		fails = append(fails, mk("print-reparse", "panic", want, "re-parsing "+q2+": "+pan2))
	case err2 != nil:
		fails = append(fails, mk("print-reparse", "printed-form-rejected", want, "re-parsing "+q2+": "+err2.Error()))
	default:
		if got2 := canonTree(fromKvql(e2)); got2 != want {
			fails = append(fails, mk("print-reparse", "printed-form-parses-differently", want, "printed "+printed+" parses to "+got2))
		}
	}
	// the filter shown by Explain() is the filter executed
	if c.Type == "B" {
		st := store.New(nil)
		plan, berr, bpan, _ := drv.Build(q, st)
		evals++
		if bpan == "" && berr == nil {
			var filt *kvql.FilterExec
			var scanStr string
			switch p := plan.(type) {
			case *kvql.ProjectionPlan:
				scanStr = p.ChildPlan.String()
				switch s := p.ChildPlan.(type) {
				case *kvql.FullScanPlan:
					filt = s.Filter
				case *kvql.PrefixScanPlan:
					filt = s.Filter
				case *kvql.RangeScanPlan:
					filt = s.Filter
				case *kvql.MultiGetPlan:
					filt = s.Filter
				}
			}
			if filt != nil {
				const mark = "Filter = '"
				if i := strings.Index(scanStr, mark); i >= 0 && strings.HasSuffix(scanStr, "'}") {
					shown := scanStr[i+len(mark) : len(scanStr)-2]
					executed := canonTree(fromKvql(filt.Ast.Expr))
					if notExpressible(fromKvql(filt.Ast.Expr)) {
						// folded constants the language has no literal for (negative
						// numbers, a folded zero divisor): not expressible, not judged
						return fails, "ok(explain-not-expressible)", evals
					}
					e3, err3, pan3 := parseExprOf("select "+c.sel()+" where "+shown, "B")
					evals++
					switch {
					case pan3 != "":
						fails = append(fails, mk("explain-is-executed", "panic", executed, pan3))
					case err3 != nil:
						// a filter folded to a bare non-Boolean-looking literal cannot be re-parsed as WHERE; only `true`/`false` can
						fails = append(fails, mk("explain-is-executed", "shown-filter-rejected", executed, "shown filter "+shown+": "+err3.Error()))
					default:
						if got3 := canonTree(fromKvql(e3)); got3 != executed {
							fails = append(fails, mk("explain-is-executed", "shown-filter-differs", executed, "shown "+shown+" parses to "+got3))
						}
					}
				}
			}
		}
	}
	return fails, status, evals
}

func (c15) Replay(data json.RawMessage) *core.Failure {
	var c c15Case
	if err := json.Unmarshal(data, &c); err != nil || c.Expr == nil {
		return nil
	}
	fs, _, _ := c15Judge(&c)
	if len(fs) == 0 {
		return nil
	}
	return &fs[0]
}
