package checks

import (
	"encoding/json"
	"fmt"
	"sort"
	"strings"

	"verif/mc/core"
	"verif/mc/drv"
	"verif/mc/ref"
	"verif/mc/store"
)

// C08 — LIMIT returns exactly the requested slice of the unlimited result.

type c08Case struct {
	Kind  string       `json:"kind"` // select | ordered | aggr | aggr-ordered | delete
	Store []store.Pair `json:"store"`
	S     int          `json:"s"`
	N     int          `json:"n"`
	Short bool         `json:"short_form,omitempty"` // `limit n` instead of `limit 0, n`
	// Listed: kind select-in: the keys named by the statement (a superset of the stored keys)
	Listed []string `json:"listed,omitempty"`
	B     int          `json:"b"`
	Mode  string       `json:"mode"`
}

func (c *c08Case) base() string {
	switch c.Kind {
	case "select":
		return "select * where value = 'y'"
	case "select-alias":
		// select fields that the filter names (and so has computed for the pairs it
		// saw, rejected ones included) before the limit cuts the accepted ones
		return "select key, upper(key) as uk, value as v where v = 'y' & uk != 'ZZ'"
	case "ordered":
		return "select key, value where value = 'y' order by key desc"
	case "ordered-ties":
		return "select key, value where value ^= 'y' order by value desc"
	case "aggr":
		return "select key, count(1) where value = 'y' group by key"
	case "aggr-ordered":
		return "select key, count(1) where value = 'y' group by key order by key desc"
	case "aggr-all":
		// no GROUP BY: one row for all accepted pairs (none when nothing is accepted)
		return "select count(1), sum(strlen(key)) where value = 'y'"
	case "aggr-all-ordered":
		return "select count(1) as c, sum(strlen(key)) where value = 'y' order by c desc"
	case "aggr-groups":
		// groups with several members that interleave in key order
		return "select value, count(1) where value ^= 'y' group by value"
	case "aggr-groups-ordered":
		return "select value, count(1) where value ^= 'y' group by value order by value desc"
	case "delete":
		return "delete where value = 'y'"
	case "select-in":
		// a literal key list in which some listed keys are not stored (the store
		// of this kind holds the 'y' pairs only): rows are what is stored, not what is listed
		var ks []string
		for i := 0; i < len(c.Listed); i++ {
			ks = append(ks, "'"+c.Listed[i]+"'")
		}
		if len(ks) == 0 {
			ks = []string{"'zz'"}
		}
		return "select * where key in (" + strings.Join(ks, ", ") + ")"
	case "delete-in":
		// a literal key set (point reads / direct-removal shortcut): the keys whose value is y
		var ks []string
		for _, p := range c.Store {
			if p.V == "y" {
				ks = append(ks, "'"+p.K+"'")
			}
		}
		if len(ks) == 0 {
			ks = []string{"'zz'"}
		}
		return "delete where key in (" + strings.Join(ks, ", ") + ")"
	}
	return "?"
}

func (c *c08Case) limit() string {
	if c.Short && c.S == 0 {
		return fmt.Sprintf(" limit %d", c.N)
	}
	return fmt.Sprintf(" limit %d, %d", c.S, c.N)
}

func (c *c08Case) text() string {
	return fmt.Sprintf("%s%s | mode=%s B=%d store=%s", c.base(), c.limit(), c.Mode, c.B, store.CanonPairs(c.Store))
}

type c08 struct{}

func init() { core.Register(c08{}) }

func (c08) Info() core.Info {
	return core.Info{
		ID:    "C08",
		Title: "LIMIT returns exactly the requested slice of the unlimited result",
		Level: "exploration",
		Rule: "exhaustive grid: offset s and count n in 0..2B+1, result size R in 0..3B+1 (all-accept stores) and all 2^8 accept/reject patterns of a value filter over an 8-pair store (every refill-size sequence), batch sizes B in {1,2,3,4} (+32 with boundary values {0,1,31,32,33,63,64,65}); kinds select/ordered/aggregate/aggregate+order/aggregate without GROUP BY/delete; both `limit s,n` and `limit n`; row and batch drains. " +
			"Oracle: rows (or deleted keys) == rows [s,s+n) of the same statement without LIMIT in the same mode, which is itself compared with the reference model. Non-trivial: s>0, n>0 and the slice is a proper non-empty part of the unlimited result. Distinct: (kind,store,s,n,B,mode).",
		Assumptions:      []string{"storage implements the snapshot-cursor contract of DESIGN.md §2", "ORDER BY keys are unique except in the ordered-ties kind, which uses the tolerant oracle (a slice of some valid sorted order)"},
		CrashIsViolation: true,
	}
}

var c08Kinds = []string{"select", "ordered", "aggr", "aggr-ordered", "delete", "ordered-ties", "delete-in", "aggr-groups", "aggr-groups-ordered", "aggr-all", "aggr-all-ordered", "select-in", "select-alias"}

type c08Unit struct {
	kind string
	b    int
	fam  string // pattern | size | big
	part int    // sub-partition
}

func c08Units(t core.Tier) []c08Unit {
	var us []c08Unit
	bs := []int{1, 2, 3, 4}
	for _, k := range c08Kinds {
		for _, b := range bs {
			for part := 0; part < 4; part++ {
				us = append(us, c08Unit{k, b, "pattern", part})
			}
			us = append(us, c08Unit{k, b, "size", 0})
		}
		us = append(us, c08Unit{k, 32, "big", 0}, c08Unit{k, 2, "huge", 0}, c08Unit{k, 32, "huge", 0})
		if t == core.Thorough {
			us = append(us, c08Unit{k, 5, "size", 0}, c08Unit{k, 7, "size", 0}, c08Unit{k, 16, "big16", 0})
		}
	}
	return us
}

func (c08) Units(t core.Tier) int { return len(c08Units(t)) }

func keyName(i int) string { return fmt.Sprintf("k%03d", i) }

func c08PatternStore(pat, n int, ties int) []store.Pair {
	ps := make([]store.Pair, n)
	for i := 0; i < n; i++ {
		v := "n"
		if pat&(1<<i) != 0 {
			v = "y"
			if ties > 0 {
				v = "y" + string(rune('0'+i%ties))
			}
		}
		ps[i] = store.Pair{K: keyName(i), V: v}
	}
	return ps
}

func (c08) RunUnit(t core.Tier, u int, r *core.Reporter) {
	un := c08Units(t)[u]
	ties := 0
	switch un.kind {
	case "ordered-ties":
		ties = 2
	case "aggr-groups", "aggr-groups-ordered":
		ties = 3
	}
	modes := []string{drv.Row, drv.Batch}
	run := func(ps []store.Pair, ss, ns []int) {
		var listed []string
		if un.kind == "select-in" {
			var kept []store.Pair
			for _, p := range ps {
				listed = append(listed, p.K)
				if p.V == "y" {
					kept = append(kept, p)
				}
			}
			listed = append(listed, "k998", "k999")
			ps = kept
		}
		for _, mode := range modes {
			base := c08Case{Kind: un.kind, Store: ps, B: un.b, Mode: mode, Listed: listed}
			var unl *c08Unlimited
			for _, s := range ss {
				for _, n := range ns {
					for _, short := range []bool{false, true} {
						if short && s != 0 {
							continue
						}
						cs := base
						cs.S, cs.N, cs.Short = s, n, short
						if !r.Begin(func() *core.Failure {
							return &core.Failure{Property: "C08", Leg: "limit-slice", Case: cs.text(), Data: core.MustJSON(cs)}
						}) {
							continue
						}
						if unl == nil {
							unl = c08RunUnlimited(&base)
							r.Evals(1)
						}
						f, nontrivial, obs := c08Judge(&cs, unl)
						r.Evals(1)
						status := "ok"
						if f != nil {
							status = "violation:" + f.Sig
							r.Fail(*f)
						}
						r.Case(cs.text(), nontrivial, status)
						r.Observed(obs)
					}
				}
			}
		}
	}
	seq := func(n int) []int {
		out := make([]int, n+1)
		for i := range out {
			out[i] = i
		}
		return out
	}
	switch un.fam {
	case "pattern":
		sn := seq(2*un.b + 1)
		for pat := un.part; pat < 256; pat += 4 {
			run(c08PatternStore(pat, 8, ties), sn, sn)
		}
	case "size":
		sn := seq(2*un.b + 1)
		for R := 0; R <= 3*un.b+1; R++ {
			run(c08PatternStore((1<<R)-1, R, ties), sn, sn)
		}
	case "big":
		sn := []int{0, 1, 31, 32, 33, 63, 64, 65}
		for _, R := range []int{0, 31, 32, 33, 64, 65, 70} {
			ps := make([]store.Pair, 0, R+10)
			for i := 0; i < R; i++ {
				v := "y"
				if ties > 0 {
					v = "y" + string(rune('0'+i%ties))
				}
				ps = append(ps, store.Pair{K: keyName(i), V: v})
			}
			run(ps, sn, sn)
			// interleave rejected rows so that child batches are not aligned
			ps2 := make([]store.Pair, 0, 2*R)
			for i := 0; i < R; i++ {
				v := "y"
				if ties > 0 {
					v = "y" + string(rune('0'+i%ties))
				}
				ps2 = append(ps2, store.Pair{K: keyName(2 * i), V: v})
				if i%3 == 0 {
					ps2 = append(ps2, store.Pair{K: keyName(2*i + 1), V: "n"})
				}
			}
			run(ps2, sn, sn)
		}
	case "huge":
		// windows whose count (or offset) is near the largest integer: "skip s
		// rows, give me the rest"; offset + count does not fit an int
		const max = int(^uint(0) >> 1)
		ss := []int{0, 1, 3, max - 1, max}
		ns := []int{0, 2, max - 3, max - 2, max - 1, max}
		for _, R := range []int{0, 1, 4, 2*un.b + 2} {
			run(c08PatternStore((1<<R)-1, R, ties), ss, ns)
		}
		run(c08PatternStore(0xb5, 8, ties), ss, ns)
	case "big16":
		sn := []int{0, 1, 15, 16, 17, 31, 32, 33}
		for _, R := range []int{0, 15, 16, 17, 32, 33, 40} {
			run(c08PatternStore((1<<R)-1, R, ties), sn, sn)
		}
	}
}

type c08Unlimited struct {
	out    *drv.Outcome
	rows   []string
	after  []store.Pair // delete: post state
	refErr string
}

// c08RunUnlimited runs the statement without LIMIT and checks it against the
// reference model.
func c08RunUnlimited(c *c08Case) *c08Unlimited {
	u := &c08Unlimited{}
	st := store.New(c.Store)
	u.out = drv.Run(c.base(), st, drv.Opt{Mode: c.Mode, B: c.B})
	u.rows = u.out.Rows
	u.after = st.Pairs()
	// reference
	var want []string
	var acc []store.Pair
	for _, p := range st0(c.Store) {
		if p.V == "y" || ((c.Kind == "ordered-ties" || strings.HasPrefix(c.Kind, "aggr-groups")) && strings.HasPrefix(p.V, "y")) {
			acc = append(acc, p)
		}
	}
	switch c.Kind {
	case "select", "select-in":
		want = drv.PairsRows(acc)
	case "select-alias":
		for _, p := range acc {
			want = append(want, ref.T(p.K).Canon()+" | "+ref.T(strings.ToUpper(p.K)).Canon()+" | "+ref.T(p.V).Canon())
		}
	case "ordered":
		rev := append([]store.Pair(nil), acc...)
		sort.Slice(rev, func(i, j int) bool { return rev[i].K > rev[j].K })
		want = drv.PairsRows(rev)
	case "ordered-ties":
		// any order sorted by value desc: compare as sorted-by-value with multiset ties
		got := append([]string(nil), u.rows...)
		exp := drv.PairsRows(acc)
		sort.Strings(got)
		sort.Strings(exp)
		if !u.out.Failed() && !drv.EqualRows(got, exp) {
			u.refErr = "unlimited ordered result is not a permutation of the reference rows"
		}
		for i := 1; i < len(u.rows) && u.refErr == ""; i++ {
			a, b := u.rows[i-1], u.rows[i]
			if a[strings.Index(a, " | ")+3:] < b[strings.Index(b, " | ")+3:] {
				u.refErr = "unlimited ordered result is not sorted by value desc"
			}
		}
		return u
	case "aggr":
		for _, p := range acc {
			want = append(want, ref.T(p.K).Canon()+" | "+ref.I(1).Canon())
		}
	case "aggr-all", "aggr-all-ordered":
		if len(acc) > 0 {
			var sl int64
			for _, p := range acc {
				sl += int64(len(p.K))
			}
			want = append(want, ref.I(int64(len(acc))).Canon()+" | "+ref.I(sl).Canon())
		}
	case "aggr-groups", "aggr-groups-ordered":
		cnt := map[string]int64{}
		var order []string
		for _, p := range acc {
			if cnt[p.V] == 0 {
				order = append(order, p.V)
			}
			cnt[p.V]++
		}
		if c.Kind == "aggr-groups-ordered" {
			sort.Sort(sort.Reverse(sort.StringSlice(order)))
		}
		for _, v := range order {
			want = append(want, ref.T(v).Canon()+" | "+ref.I(cnt[v]).Canon())
		}
	case "aggr-ordered":
		rev := append([]store.Pair(nil), acc...)
		sort.Slice(rev, func(i, j int) bool { return rev[i].K > rev[j].K })
		for _, p := range rev {
			want = append(want, ref.T(p.K).Canon()+" | "+ref.I(1).Canon())
		}
	case "delete", "delete-in":
		var rest []store.Pair
		for _, p := range st0(c.Store) {
			if p.V != "y" {
				rest = append(rest, p)
			}
		}
		if !u.out.Failed() && store.CanonPairs(u.after) != store.CanonPairs(rest) {
			u.refErr = fmt.Sprintf("unlimited delete left %s, reference %s", store.CanonPairs(u.after), store.CanonPairs(rest))
		}
		return u
	}
	if !u.out.Failed() && !drv.EqualRows(u.rows, want) {
		u.refErr = fmt.Sprintf("unlimited result %v differs from the reference %v", u.rows, want)
	}
	return u
}

func st0(ps []store.Pair) []store.Pair { return store.New(ps).Pairs() }

func c08Judge(c *c08Case, unl *c08Unlimited) (f *core.Failure, nontrivial bool, observed string) {
	mk := func(sig, exp, obs string) *core.Failure {
		return &core.Failure{Property: "C08", Leg: "limit-slice", Sig: sig, Case: c.text(), Data: core.MustJSON(c), Expected: exp, Observed: obs}
	}
	if unl.out.Failed() {
		return mk("unlimited-failed", "the statement without LIMIT executes", unl.out.Describe()), false, "unl-failed"
	}
	if unl.refErr != "" {
		return mk("unlimited-vs-reference", "reference result", unl.refErr), false, "unl-ref"
	}
	st := store.New(c.Store)
	out := drv.Run(c.base()+c.limit(), st, drv.Opt{Mode: c.Mode, B: c.B, ExtraPoll: 1})
	if out.Failed() {
		return mk("limited-failed", "rows", out.Describe()), false, "failed"
	}
	slice := func(rows []string) []string {
		lo := c.S
		if lo > len(rows) {
			lo = len(rows)
		}
		hi := len(rows)
		if c.N < hi-lo { // (never s+n: the sum of two large windows does not fit an int)
			hi = lo + c.N
		}
		return rows[lo:hi]
	}
	if c.Kind == "delete" || c.Kind == "delete-in" {
		// accepted keys in key order; the deleted set must be the slice
		var acc []string
		for _, p := range st0(c.Store) {
			if p.V == "y" {
				acc = append(acc, p.K)
			}
		}
		del := map[string]bool{}
		for _, k := range slice(acc) {
			del[k] = true
		}
		var want []store.Pair
		for _, p := range st0(c.Store) {
			if !del[p.K] {
				want = append(want, p)
			}
		}
		got := store.CanonPairs(st.Pairs())
		nontrivial = c.S > 0 && c.N > 0 && len(del) > 0 && len(del) < len(acc)
		if got != store.CanonPairs(want) {
			return mk("wrong-pairs-deleted", "post-state "+store.CanonPairs(want), "post-state "+got), nontrivial, got
		}
		return nil, nontrivial, got
	}
	want := slice(unl.rows)
	nontrivial = c.S > 0 && c.N > 0 && len(want) > 0 && len(want) < len(unl.rows)
	obs := strings.Join(out.Rows, ";")
	if c.Kind == "ordered-ties" {
		// tolerant oracle: a slice of SOME valid sorted order. Rows are sorted by
		// value desc; ties are the rows with the same value. The limited rows
		// must be sorted, contain only unlimited rows without repetition, have
		// the right length, and every row strictly before (after) the slice's
		// value range must be absent (present) accordingly.
		if msg := c08TiesOK(out.Rows, unl.rows, c.S, c.N); msg != "" {
			return mk("not-a-slice-of-a-sorted-order", "a slice [s,s+n) of some valid order of "+fmt.Sprint(unl.rows), fmt.Sprint(out.Rows)+": "+msg), nontrivial, obs
		}
		return nil, nontrivial, obs
	}
	if !drv.EqualRows(out.Rows, want) {
		sig := "wrong-rows"
		switch {
		case len(out.Rows) > len(want):
			sig = "too-many-rows"
		case len(out.Rows) < len(want):
			sig = "too-few-rows"
		}
		return mk(sig, fmt.Sprintf("%d rows %v", len(want), want), fmt.Sprintf("%d rows %v", len(out.Rows), out.Rows)), nontrivial, obs
	}
	return nil, nontrivial, obs
}

// c08TiesOK: rows are "T:key | T:value"; order is by value descending.
func c08TiesOK(got, all []string, s, n int) string {
	val := func(row string) string { return row[strings.Index(row, " | ")+3:] }
	lo := s
	if lo > len(all) {
		lo = len(all)
	}
	hi := len(all)
	if n < hi-lo {
		hi = lo + n
	}
	if len(got) != hi-lo {
		return fmt.Sprintf("length %d, want %d", len(got), hi-lo)
	}
	seen := map[string]bool{}
	in := map[string]bool{}
	for _, r := range all {
		in[r] = true
	}
	for i, r := range got {
		if !in[r] || seen[r] {
			return "row not in the unlimited result or repeated: " + r
		}
		seen[r] = true
		if i > 0 && val(got[i-1]) < val(r) {
			return "not sorted"
		}
	}
	// position i of got must hold a row whose value equals the value at
	// position lo+i of the (sorted) unlimited result
	for i, r := range got {
		if val(r) != val(all[lo+i]) {
			return fmt.Sprintf("position %d has value %s, any valid order has %s there", i, val(r), val(all[lo+i]))
		}
	}
	return ""
}

func (c08) Replay(data json.RawMessage) *core.Failure {
	var c c08Case
	if err := json.Unmarshal(data, &c); err != nil {
		return nil
	}
	base := c
	unl := c08RunUnlimited(&base)
	f, _, _ := c08Judge(&c, unl)
	return f
}
