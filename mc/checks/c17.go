package checks

import (
	"encoding/json"
	"fmt"
	"strconv"
	"strings"

	"github.com/c4pt0r/kvql"

	"verif/mc/core"
	"verif/mc/drv"
	"verif/mc/store"
)

// C17 — reported error positions lie inside the query and render with an aligned caret.

type c17Case struct {
	Query   string `json:"query"`
	Padding int    `json:"padding"`
	// DefPad: when set, kvql.DefaultErrorPadding is set to it before the statement
	// runs and SetPadding is not called: errors render with the default in force
	// when they were created
	DefPad *int `json:"default_padding,omitempty"`
}

func (c *c17Case) text() string {
	if c.DefPad != nil {
		return fmt.Sprintf("%q DefaultErrorPadding=%d", c.Query, *c.DefPad)
	}
	return fmt.Sprintf("%q padding=%d", c.Query, c.Padding)
}

type c17 struct{}

func init() { core.Register(c17{}) }

func (c17) Info() core.Info {
	return core.Info{
		ID:    "C17",
		Title: "Reported error positions lie inside the query and render with an aligned caret",
		Level: "exploration",
		Rule: "every single-token edit (delete, duplicate, replace by each of 26 alphabet tokens) at every token position of a corpus of valid statements of all kinds and of lengths 30/69/70/71/150 bytes (so that faults fall early and late, inside and outside the 70-character window), plus statements that fail at execution; each erroneous variant with leading white space {none, 1 and 3 blanks, a tab, a line feed + 2 blanks} x trailing white space {none, 2 blanks, a line feed, blank + tab} x padding {0,7,12} set per error, and DefaultErrorPadding set to {0,3,12} for the whole statement; the statement corpus also holds a statement with tabs between its tokens (line feeds inside a statement are not used: a caret line cannot stand under a character of a text that spans several lines). " +
			"Oracle: Pos is -1 or 0 <= Pos < len(query); for errors from parsing / checking Pos is 0 or the start offset of a token (reference lexer of C16); after BindQuery the first line shows a stretch of the (trimmed) query that contains the offset and the caret of the second line stands, after the padding, under the character at that offset (at the end of the text for -1). Every error is bound and rendered twice (same text, same padding): both renderings must satisfy this and the position carried after binding must still be such an offset. Rendering must not panic. Non-trivial: an error with a position inside a query longer than the window or with leading blanks. Distinct: (query text, padding).",
		Assumptions: []string{"errors that are not positional (no QueryBinder) are skipped", "the first line is printed after a prefix of `padding` characters, as in the README example"},
	}
}

// c17Decorate puts `before` directly in front of and `after` directly behind
// every word (name, keyword, number) of q.
func c17Decorate(q, before, after string) string {
	toks, _, _ := refLex(q)
	var b strings.Builder
	at := 0
	for _, t := range toks {
		switch t.kind {
		case "STR", "BQ", "OP", "(", ")", "[", "]", "SEP", "SEMI":
			continue
		}
		b.WriteString(q[at:t.pos])
		b.WriteString(before + q[t.pos:t.pos+len(t.text)] + after)
		at = t.pos + len(t.text)
	}
	b.WriteString(q[at:])
	return b.String()
}

func c17Corpus() []string {
	fill := func(n int) string {
		if n < 0 {
			n = 0
		}
		return strings.Repeat("x", n)
	}
	long := func(total int) string {
		base := "select key, value where key ^= 'k' & value != '' & int(value) > 1"
		pad := total - len(base)
		if pad < 0 {
			pad = 0
		}
		return "select key, value where key ^= 'k' & value != '" + fill(pad) + "' & int(value) > 1"
	}
	long2 := func(total int) string {
		base := "select upper('') as f, key where key in ('a', 'b') order by key desc limit 1, 2"
		return "select upper('" + fill(total-len(base)) + "') as f, key where key in ('a', 'b') order by key desc limit 1, 2"
	}
	return []string{
		"select * where key = 'a'",
		"where key ^= 'k' & value ~= '^v'",
		"select key, int(value) + 1 where key in ('k1', 'k2') & is_int(value)",
		"select count(1), sum(int(value)) as s, substr(key, 0, 2) as p where key between 'k' and 'l' group by p order by s desc",
		"select key, json(value)['x']['y'] where key ^= 'k' & int(json(value)['t']) >= 1",
		"select key, split(value, ',') as f1 where 'a' in f1",
		"select key, value where !(key = 'a') | value > 'b' limit 5, 10",
		"put ('k1', 'v1'), ('k2', upper('v' + key))",
		"remove 'k1', 'k2' + 'x'",
		"delete where key ^= 'p' and value ~= '^v' limit 10",
		"delete where key in ('k1', 'k2')",
		"select key, value where int(value) / (strlen(key) - 1) > 1",
		"select key where value between 'b' and 'a'",
		"select key, l2_distance(list(1, 2), split(value, ',')) where true",
		"select key,\tvalue where\tkey ^= 'k' &\tint(value) > 1 order by\tkey desc",
		// white space the splitter does not know, of one, two and three bytes,
		// directly before and after the words (it belongs to no token)
		c17Decorate("select key, int(value) + 1 as n where key in ('k1', 'k2') & is_int(value) order by n desc limit 1, 2", "\u00a0", ""),
		c17Decorate("select key, upper(value) where key ^= 'k' & strlen(value) > 1", "\u3000", "\f"),
		c17Decorate("delete where key between 'a' and 'b' & value != 'x' limit 3", "\u00a0\u00a0", "\u0085"),
		c17Decorate("put ('k1', upper('v' + key))", "\v", "\u3000"),
		long(30), long(69), long(70), long(71), long(150),
		long2(80), long2(150),
	}
}

var c17Alphabet = []string{
	"select", "where", "key", "value", "*", ",", "(", ")", "[", "]", "'a'", "1", "1.5", "f", "upper", "=", "+", "&", "!", "in", "between", "and", "as", "limit", "order by", "group by", "put", "remove", "delete", "^=", ";",
}

type span struct{ lo, hi int }

func tokenSpans(q string) []span {
	toks, _, _ := refLex(q)
	out := make([]span, len(toks))
	for i, t := range toks {
		l := len(t.text)
		if t.kind == "STR" || t.kind == "BQ" {
			l += 2
		}
		out[i] = span{t.pos, t.pos + l}
	}
	return out
}

// c17Edits: all single-token edits of q.
func c17Edits(q string) []string {
	sp := tokenSpans(q)
	seen := map[string]bool{}
	var out []string
	add := func(s string) {
		if !seen[s] {
			seen[s] = true
			out = append(out, s)
		}
	}
	add(q)
	for _, s := range sp {
		add(q[:s.lo] + q[s.hi:])                            // delete
		add(q[:s.hi] + " " + q[s.lo:s.hi] + " " + q[s.hi:]) // duplicate
		for _, a := range c17Alphabet {
			add(q[:s.lo] + a + q[s.hi:]) // replace
		}
	}
	return out
}

func (c17) Units(t core.Tier) int { return len(c17Corpus()) }

func (c17) RunUnit(t core.Tier, u int, r *core.Reporter) {
	base := c17Corpus()[u]
	for _, e := range c17Edits(base) {
		for li, lead := range []string{"", " ", "   ", "\t", "\n  "} {
			for ti, trail := range []string{"", "  ", "\n", " \t"} {
				if li >= 3 && ti >= 2 && (li+ti)%2 == 1 {
					continue // (half of the tab / line-feed combinations)
				}
				q := lead + e + trail
				if li <= 1 && ti == 0 {
					// the library-wide default padding changed at run time (the README's way)
					for _, dp := range []int{0, 3, 12} {
						dp := dp
						c := c17Case{Query: q, DefPad: &dp}
						if r.Begin(func() *core.Failure {
							return &core.Failure{Property: "C17", Leg: "error-position", Case: c.text(), Data: core.MustJSON(c)}
						}) {
							f, nontrivial, status, ev := c17Judge(&c)
							r.Evals(ev)
							if f != nil {
								status = "violation:" + f.Sig
								r.Fail(*f)
							}
							r.Case(c.text(), nontrivial, status)
						}
					}
				}
				for _, pad := range []int{0, 7, 12} {
					if (li >= 3 || ti >= 2) && pad == 12 {
						continue
					}
					c := c17Case{Query: q, Padding: pad}
					if !r.Begin(func() *core.Failure {
						return &core.Failure{Property: "C17", Leg: "error-position", Case: c.text(), Data: core.MustJSON(c)}
					}) {
						continue
					}
					f, nontrivial, status, ev := c17Judge(&c)
					r.Evals(ev)
					if f != nil {
						status = "violation:" + f.Sig
						r.Fail(*f)
					}
					r.Case(c.text(), nontrivial, status)
					r.Observed(status)
				}
			}
		}
	}
}

var c17Store = []store.Pair{{K: "k1", V: "1"}, {K: "k2", V: "b,c"}, {K: "p1", V: `{"x":{"y":1},"t":"2"}`}, {K: "a", V: "0"}}

// positional extracts the position of a kvql error.
func positional(err error) (pos int, syntax bool, ok bool) {
	switch e := err.(type) {
	case *kvql.SyntaxError:
		return e.Pos, true, true
	case *kvql.ExecuteError:
		return e.Pos, false, true
	}
	return 0, false, false
}

func c17Judge(c *c17Case) (f *core.Failure, nontrivial bool, status string, evals int) {
	mk := func(leg, sig, exp, obs string) *core.Failure {
		return &core.Failure{Property: "C17", Leg: leg, Sig: sig, Case: c.text(), Data: core.MustJSON(c), Expected: exp, Observed: obs}
	}
	q := c.Query
	pad := c.Padding
	if c.DefPad != nil {
		old := kvql.DefaultErrorPadding
		kvql.DefaultErrorPadding = *c.DefPad
		defer func() { kvql.DefaultErrorPadding = old }()
		pad = *c.DefPad
	}
	var errs []struct {
		err   error
		stage string
	}
	st := store.New(c17Store)
	st.NoLog = true
	plan, berr, bpan, _ := drv.Build(q, st)
	evals++
	switch {
	case bpan != "":
		return mk("position-in-query", "panic", "an error value", "panic while building the plan: "+bpan), true, "", evals
	case berr != nil:
		errs = append(errs, struct {
			err   error
			stage string
		}{berr, "plan"})
	default:
		for _, mode := range []string{drv.Row, drv.Batch} {
			s2 := store.New(c17Store)
			s2.NoLog = true
			out := drv.Run(q, s2, drv.Opt{Mode: mode, B: 2})
			evals++
			if out.Panic == "" && out.ExecErr != nil {
				errs = append(errs, struct {
					err   error
					stage string
				}{out.ExecErr, "exec-" + mode})
			}
		}
		_ = plan
	}
	if len(errs) == 0 {
		return nil, false, "no-error", evals
	}
	status = "ok"
	tq := strings.TrimSpace(q)
	lead := strings.Index(q, tq)
	if tq == "" {
		lead = 0
	}
	starts := map[int]bool{0: true}
	for _, s := range tokenSpans(q) {
		starts[s.lo] = true
	}
	for _, e := range errs {
		pos, syntax, ok := positional(e.err)
		if !ok {
			status = "not-positional"
			continue
		}
		msgOf := func() string { return strings.ReplaceAll(e.err.Error(), "\n", "\\n") }
		if pos != -1 && (pos < 0 || pos >= len(q)) {
			return mk("position-in-query", "position-outside-query", fmt.Sprintf("-1 or 0 <= Pos < %d", len(q)), fmt.Sprintf("Pos=%d (%s: %s)", pos, e.stage, msgOf())), true, "", evals
		}
		if syntax && e.stage == "plan" && pos >= 0 && !starts[pos] {
			return mk("position-in-query", "position-not-at-a-token", "0 or the start offset of a token", fmt.Sprintf("Pos=%d (%s)", pos, msgOf())), true, "", evals
		}
		// rendering
		qb, isQB := e.err.(kvql.QueryBinder)
		if !isQB {
			continue
		}
		// bound (and rendered) twice: the error still carries an offset into the
		// query it was bound to, and the caret still stands under that character
		for round := 1; round <= 2; round++ {
			qb.BindQuery(q)
			if c.DefPad == nil {
				qb.SetPadding(c.Padding)
			}
			if p2, _, ok2 := positional(e.err); ok2 && p2 != pos {
				if p2 != -1 && (p2 < 0 || p2 >= len(q)) {
					return mk("position-in-query", "position-outside-query-after-binding", fmt.Sprintf("-1 or 0 <= Pos < %d", len(q)), fmt.Sprintf("Pos=%d before binding, %d after binding #%d", pos, p2, round)), true, "", evals
				}
				if syntax && e.stage == "plan" && p2 >= 0 && !starts[p2] {
					return mk("position-in-query", "position-not-at-a-token-after-binding", "0 or the start offset of a token", fmt.Sprintf("Pos=%d before binding, %d after binding #%d (%s)", pos, p2, round, msgOf())), true, "", evals
				}
				pos = p2
			}
			text, pan := renderErr(e.err)
			evals++
			if pan != "" {
				return mk("caret", "render-panics", "a rendered message", fmt.Sprintf("Pos=%d: panic %s", pos, pan)), true, "", evals
			}
			lines := strings.Split(text, "\n")
			if len(lines) < 3 {
				return mk("caret", "render-shape", "query line, caret line, message line", strconv.Quote(text)), true, "", evals
			}
			line1, line2 := lines[0], lines[1]
			caret := strings.IndexByte(line2, '^')
			if caret < 0 || strings.TrimLeft(line2[:caret], " ") != "" {
				return mk("caret", "no-caret", "spaces then ^", strconv.Quote(line2)), true, "", evals
			}
			body := line1
			prefix := 0
			if strings.HasPrefix(body, "... ") {
				body = body[4:]
				prefix = 4
			}
			body = strings.TrimSuffix(body, " ...")
			p := len(tq)
			if pos >= 0 {
				p = pos - lead
			}
			col := caret - pad - prefix
			a := p - col
			okAlign := p >= 0 && p <= len(tq) && col >= 0 && col <= len(body) && a >= 0 && a+len(body) <= len(tq) && tq[a:a+len(body)] == body
			if okAlign && col == len(body) && p != len(tq) {
				okAlign = false // the caret may stand after the window only when it marks the end of the text
			}
			if !okAlign {
				want := "end of text"
				if pos >= 0 && pos < len(q) {
					want = fmt.Sprintf("%q at offset %d", q[pos], pos)
				}
				return mk("caret", "caret-misaligned", "line 1 shows a stretch of the query containing the offset and the caret stands under "+want+" (after the padding)",
					fmt.Sprintf("Pos=%d rendered: %s", pos, strconv.Quote(lines[0]+"\n"+lines[1]))), true, "", evals
			}
		}
		if lead > 0 || len(tq) > 70 {
			nontrivial = true
		}
	}
	return nil, nontrivial, status, evals
}

func renderErr(err error) (s string, pan string) {
	defer func() {
		if r := recover(); r != nil {
			pan = fmt.Sprint(r)
		}
	}()
	return err.Error(), ""
}

func (c17) Replay(data json.RawMessage) *core.Failure {
	var c c17Case
	if err := json.Unmarshal(data, &c); err != nil {
		return nil
	}
	f, _, _, _ := c17Judge(&c)
	return f
}

func (c17) Simplify(data json.RawMessage) []json.RawMessage {
	var c c17Case
	if err := json.Unmarshal(data, &c); err != nil {
		return nil
	}
	var out []json.RawMessage
	// drop one token
	for _, s := range tokenSpans(c.Query) {
		d := c
		d.Query = c.Query[:s.lo] + c.Query[s.hi:]
		out = append(out, core.MustJSON(d))
	}
	if strings.HasPrefix(c.Query, " ") {
		d := c
		d.Query = c.Query[1:]
		out = append(out, core.MustJSON(d))
	}
	if strings.HasSuffix(c.Query, " ") {
		d := c
		d.Query = c.Query[:len(c.Query)-1]
		out = append(out, core.MustJSON(d))
	}
	if c.Padding != 0 {
		d := c
		d.Padding = 0
		out = append(out, core.MustJSON(d))
	}
	return out
}
