package checks

import (
	"encoding/json"
	"fmt"
	"strconv"
	"strings"

	"github.com/c4pt0r/kvql"

	"verif/mc/core"
	"verif/mc/drv"
	"verif/mc/ref"
	"verif/mc/store"
)

// C06 — no query text and no data can crash the library.

type c06Case struct {
	Query  string   `json:"query"`
	Store  int      `json:"store"` // index into c06Stores; -1: every combination of Stores x Cfgs
	Mode   string   `json:"mode,omitempty"`
	B      int      `json:"b,omitempty"`
	Stores []int    `json:"stores,omitempty"`
	Cfgs   [][2]any `json:"cfgs,omitempty"`
}

func (c *c06Case) text() string {
	q := c.Query
	if len(q) > 300 {
		q = q[:150] + fmt.Sprintf("...(%d bytes)...", len(c.Query)) + q[len(q)-100:]
	}
	if c.Store < 0 {
		return fmt.Sprintf("%s | all of stores %v x %v", strconv.Quote(q), c.Stores, c.Cfgs)
	}
	return fmt.Sprintf("%s | store=%s mode=%s B=%d", strconv.Quote(q), c06StoreNames[c.Store], c.Mode, c.B)
}

type c06 struct{}

func init() { core.Register(c06{}) }

func (c06) Info() core.Info {
	return core.Info{
		ID:    "C06",
		Title: "No query text and no data can crash the library",
		Level: "exploration",
		Rule: "three exhaustive families: (1) ALL token strings of length <= 5 (thorough: 6) over a 24-token alphabet are parsed and planned; those that build are executed; (2) all valid statements of the C03 / C05 / C09 / C12 pools at their quick bounds, plus self- and mutually-referential aliases, zero-argument calls of every scalar and aggregate function, every function applied to every value kind (text, integer, float, Boolean, list, JSON, indexed JSON), out-of-range substr / index arguments; (3) all single-token edits of a statement corpus, and parametrised long inputs (nesting depth and length 10/100/1000/4000 with the error early or late); each executed over 8 stores (empty, numeric, text, CSV, JSON with mixed member types, non-UTF-8 bytes, int64/float extremes, 3-byte keys) in row mode and in batches of 1, 2 and 32; every returned error is rendered unbound and bound to the query (paddings 0 and 7, with leading / trailing blanks). " +
			"Oracle: every step returns; no panic (recovered and recorded), no fatal runtime error (the isolated worker process dies: journalled case), no watchdog expiry. Non-trivial: the statement reaches execution, or an error reaches rendering. Distinct: (query, store, mode, B)." +
			" Also: 21 `~=` patterns that do not compile or are unusual in seven statement shapes plus patterns taken from the data (every statement meets every store in both modes within one process); cycles of bare field names entered from a field, the filter, ORDER BY and GROUP BY.",
		Assumptions:      []string{"inputs up to 4 KB (the property says 'a few kilobytes')", "coverage-guided mutation is replaced by complete enumeration of short token strings and of single-edit neighbourhoods"},
		CrashIsViolation: true,
	}
}

var c06StoreNames = []string{"empty", "numeric", "text", "csv", "json-mixed", "non-utf8", "extremes", "3-byte-keys", "mixed-numbers"}

func c06Stores() [][]store.Pair {
	mk := func(keys, vals []string) []store.Pair {
		ps := make([]store.Pair, len(keys))
		for i, k := range keys {
			ps[i] = store.Pair{K: k, V: vals[i%len(vals)]}
		}
		return ps
	}
	k5 := []string{"a", "ab", "b", "k1", "k2"}
	return [][]store.Pair{
		nil,
		mk(k5, []string{"1", "2", "10", "3", "0"}),
		mk(k5, []string{"a", "Ab", "", "x y", "zz"}),
		mk(k5, []string{"a,b", "1,2,3", "x", ",", "1.5,a"}),
		mk(k5, []string{`{"a":1,"l":[1,"y"],"o":{"b":"x"}}`, `{"a":"x","l":["p"],"o":{"b":[1]}}`, `{"a":null,"l":{},"o":3}`, `[1,2]`, `{"a":true,"l":[[1],{"z":1}],"o":{"b":{"c":1}}}`}),
		mk([]string{"\xff\xfe", "a\x00b", "\xc3\x28", "k\xe2\x82", "z"}, []string{"\xc3\x28", "\xff", "a\x00", "\xf0\x9f\x98", "1"}),
		mk(k5, []string{"9223372036854775807", "-9223372036854775808", "1e308", "1.7976931348623157e308", "NaN", "Inf", "-0", "99999999999999999999", "0x10", "1e-320"}),
		mk([]string{"abc", "abd", "xyz", "a b", "k,1"}, []string{"1", "a,b", "abc", "12", `{"a":1}`}),
		mk([]string{"a1", "a2", "b1", "b2", "c1", "d1", "d2"}, []string{"1", "2", "1.5", "2", "7", "0.25", "-3"}),
	}
}

var c06Alphabet = []string{
	"select", "where", "key", "value", "*", ",", "(", ")", "[", "]", "'a'", "1", "1.5", "f", "upper", "=", "+", "&", "!", "in", "between", "and", "as", "limit", "order by", "group by", "put", "remove", "delete",
}

// ---- statement families ---------------------------------------------------------

func c06Valid() []string {
	var out []string
	add := func(q ...string) { out = append(out, q...) }
	// C03 pools
	for _, f := range c03Fields() {
		for _, w := range c03Wheres() {
			sel := "key, " + f.expr + " as x"
			if w.alias != "" {
				sel += ", " + w.alias
			}
			add("select " + sel + " where " + w.w)
		}
		if f.ord {
			add("select key, "+f.expr+" as x where true order by x desc, key asc limit 1, 3", "select "+f.expr+" as x, count(1) where true group by x order by x")
		}
	}
	for _, a := range c03Aggrs() {
		for _, g := range c03Groups {
			sel := a.expr + " as x"
			grp := ""
			if g.field != "" {
				sel = g.field + ", " + sel
				grp = " group by " + g.by
			}
			add("select "+sel+" where true"+grp, "select "+sel+" where value != '2'"+grp+" order by x desc limit 1, 2")
		}
	}
	// C05 shapes
	for ai, a := range c05Aliases() {
		for _, sh := range append(c05Shapes(ai, a), c05AggrShapes(ai, a)...) {
			c := c05Case{Fields: sh.fields, Where: sh.where, Order: sh.order, Group: sh.group}
			add(c.query(false))
			cp := c
			cp.Where = ref.Bin("&", c05Paths[3].p.Clone(), sh.where.Clone())
			add(cp.query(false))
		}
	}
	// C09 statements
	for gi := range c09GroupExprs() {
		for ai := range c09AggrItems() {
			c := c09Case{Groups: []int{gi}, Aggrs: []int{ai}, Where: 1}
			add(c.query())
		}
	}
	// C12 alphabets
	pool := append(c12PairPool(), c12FailingPairs()...)
	for _, p1 := range pool {
		for _, p2 := range pool {
			add((&wstmt{Kind: "put", Pairs: [][2]*ref.Expr{p1, p2}}).text())
		}
	}
	for _, k1 := range c12RemovePool() {
		add((&wstmt{Kind: "remove", Keys: []*ref.Expr{k1, c12RemovePool()[0]}}).text())
	}
	for _, p := range c11Preds() {
		add((&wstmt{Kind: "delete", Pred: p, Lim: []int{1, 1}}).text())
	}
	// self- and mutually-referential aliases
	add("select upper(u) as u where key = 'a'", "select upper(u) as u where true", "select key, upper(b) as a, lower(a) as b where true",
		"select int(n) + 1 as n where n > 1", "select key, strlen(a) as a where a > 1 order by a", "select join(',', x, x) as x where true",
		"select upper(u) as u, count(1) where true group by u", "select key, value as key where key = 'a'", "select key as value, value as key where value = 'a'",
		"select a + 1 as a where true", "select a = 1 as a where true", "select key, b + 1 as a, a + 1 as b where true", "select a & true as a where true",
		"select key + a as a where true", "select 1 + a as a where a > 0", "select a between 1 and 2 as a where true", "select a in (1, 2) as a where true",
		"select !(a) as a where true", "select a + a as a where true", "select key, a * 2 as b, b - 1 as c, c / 2 as a where a > 1", "select a ^= 'x' as a where a",
		"select list(a)[0] as a where true", "select list(a)[0] + 1 as a where true", "select int_list(a)[0] as a where a > 0", "select key, list(b, 1)[0] + 1 as a, a * 2 as b where b > 0",
		"select sum(a) + 1 as a where true", "select a[0] as a where true", "select json(a)['x'] as a where true", "select split(a, ',')[0] + 'x' as a where true order by a")
	// reference cycles through every syntactic position a field name can take,
	// of length 2 and 3: each must end in an error value, not in the analysis
	// chasing the references forever
	cyc := []string{"!{}", "{} + 'a'", "'a' + {}", "{} + 1", "{} & true", "false | {}", "upper({})", "{} in ('a')", "'a' in ({}, 'b')", "{} between 'a' and 'b'", "'b' between {} and 'c'",
		"{}[0]", "list({})[0]", "{} = 'a'", "{}", "int({}) + 1", "!({} = 'a')", "join(',', {}, {})", "json({})['a']", "sum({})", "{} ^= 'a'"}
	at := func(c, name string) string { return strings.ReplaceAll(c, "{}", name) }
	for _, c1 := range cyc {
		for _, c2 := range cyc {
			add("select " + at(c1, "y") + " as x, " + at(c2, "x") + " as y where true")
			for _, c3 := range append(append([]string(nil), cyc[:12]...), "{}") {
				add("select " + at(c1, "y") + " as x, " + at(c2, "z") + " as y, " + at(c3, "x") + " as z where true")
				// a field outside the cycle that refers into it
				add("select " + at(c1, "y") + " as x, " + at(c2, "z") + " as y, " + at(c3, "y") + " as z where true")
			}
		}
		add("select "+at(c1, "x")+" as x where true", "select key, "+at(c1, "x")+" as x where x = 'a'")
		// a cycle of bare names, entered from a field, the filter, ORDER BY or GROUP BY
		add("select y as x, z as y, x as z, "+at(c1, "x")+" as w where true", "select y as x, x as y where "+at(c1, "x")+" = 'a'", "select z as x, x as y, y as z where "+at(c1, "y"),
			"select y as x, x as y, "+at(c1, "y")+" as w where true order by w", "select y as x, x as y, count(1) where true group by x", "select z as y, x as z, y as x where true order by y, z")
	}
	// zero-argument / odd-arity calls of every function
	fns := []string{"lower", "upper", "int", "float", "str", "is_int", "is_float", "substr", "json", "split", "list", "float_list", "int_list", "flist", "ilist", "len", "join", "strlen", "cosine_distance", "l2_distance",
		"count", "sum", "avg", "min", "max", "quantile", "json_arrayagg", "group_concat"}
	vals := []string{"key", "value", "'x'", "''", "1", "0", "1.5", "true", "list(1, 2)", "list(1.5)", "split(value, ',')", "json(value)", "json(value)['a']", "json(value)['l']", "json(value)['l'][0]", "int(value)", "float(value)", "key = 'a'", "upper(key)", "nan", "inf", "0 - inf", "1e400", "0x1p-2"}
	for _, f := range fns {
		add("select "+f+"() where true", "select key where "+f+"() = 1", "select key, "+f+"(key, value, 1, 'x') where true", "select * where "+f+"()", "select "+f+"() as x, count(1) where true group by x")
		for _, v := range vals {
			add("select key, " + f + "(" + v + ") as x where true")
			add("select " + f + "(" + v + ") as x, count(1) where true")
			add("select key where " + f + "(" + v + ") = " + f + "(" + v + ")")
			for _, v2 := range []string{"key", "1", "','", "list(1, 2, 3)", "json(value)['l']", "0.5", "0 - 1", "0.0 - 0.5", "2", "1.0", "0", "99999999999", "nan", "inf", "0 - inf", "1e400", "1.0000001", "float(value)", "int(value)"} {
				add("select key, " + f + "(" + v + ", " + v2 + ") as x where true order by x")
				add("select " + f + "(" + v + ", " + v2 + ") as x where true")
			}
		}
	}
	// chains of fields each defined through the previous one twice: analysis
	// must not follow every path through the chain (2^n of them)
	for _, n := range []int{6, 14, 40} {
		fs := []string{"strlen(key) as a0"}
		for i := 1; i <= n; i++ {
			fs = append(fs, fmt.Sprintf("a%d + a%d as a%d", i-1, i-1, i))
		}
		w := "key = 'nosuchkey'"
		if n <= 14 {
			w = "true"
		}
		add("select "+strings.Join(fs, ", ")+" where "+w, "select "+strings.Join(fs, ", ")+" where a"+fmt.Sprint(n)+" > 0 & "+w)
	}
	// limit windows whose bounds do not fit an int when added up
	for _, lim := range []string{"1, 9223372036854775807", "9223372036854775807, 1", "2, 9223372036854775806", "9223372036854775807", "9223372036854775807, 9223372036854775807",
		"99999999999999999999", "1, 99999999999999999999", "0, 0", "4611686018427387904, 4611686018427387904"} {
		for _, q := range []string{"select * where true", "select key, value where key != 'zz' order by value desc", "select value, count(1) where true group by value",
			"select count(1), sum(strlen(value)) where true", "select substr(key, 0, 1) as g, count(1) as c where true group by g order by c", "delete where key ^= 'zz'", "select * where key in ('a', 'b')"} {
			add(q + " limit " + lim)
		}
	}
	// out-of-range substr / index arguments
	for _, a := range []string{"0 - 1", "0", "1", "2", "3", "5", "100", "1.5", "0 - 5", "0 - 3", "int(value)", "strlen(key) - 9", "0 - 9223372036854775807", "9223372036854775807", "nan", "inf"} {
		for _, b := range []string{"0 - 1", "0", "1", "2", "3", "5", "100", "0 - 5", "0 - 3", "int(value) + 2", "strlen(key) - 7", "9223372036854775807", "0 - 9223372036854775807", "nan", "inf"} {
			add("select key, substr(key, "+a+", "+b+") where true", "select * where substr(value, "+a+", "+b+") = 'a'")
		}
	}
	for _, i := range []string{"0", "1", "5", "99999999999", "'a'", "'zz'"} {
		add("select key, list(1, 2)["+i+"] where true", "select key, split(value, ',')["+i+"] where true", "select key, json(value)['l']["+i+"] where true",
			"select key, json(value)["+i+"] where true", "select key, json(value)['o']["+i+"]["+i+"] where true", "select key, json(value)['l']["+i+"] as x where true order by x desc",
			"select * where json(value)["+i+"] = 'x'", "select key, value["+i+"] where true", "select key, upper(key)["+i+"] where true")
	}
	// order by over aggregates whose kind depends on the group's data
	for _, ag := range []string{"sum(value)", "min(value)", "max(value)", "avg(value)", "sum(value) + 1", "max(value) - min(value)", "count(1)", "quantile(value, 0.5)"} {
		for _, dir := range []string{"", " desc"} {
			add("select substr(key, 0, 1) as g, "+ag+" as x where true group by g order by x"+dir, "select substr(key, 0, 1) as g, "+ag+" as x, count(1) as c where key != 'zz' group by g order by c desc, x"+dir+" limit 1, 2")
		}
	}
	// every pair of key-constraining atoms with edge literals (empty text, a
	// key's own prefix, a byte above every key), joined by & and |, bare and
	// under a further disjunct: the region arithmetic of the planner
	var katoms []string
	for _, lit := range []string{"''", "'a'", "'k'", "'k1'", "'~'"} {
		for _, op := range []string{"=", "!=", "<", "<=", ">", ">=", "^=", "~="} {
			katoms = append(katoms, "key "+op+" "+lit)
		}
		katoms = append(katoms, lit+" < key", lit+" >= key", "key in ("+lit+", 'b')", "key between '' and "+lit, "key between "+lit+" and 'k2'")
	}
	katoms = append(katoms, "true", "false", "value = '1'")
	for _, a := range katoms {
		for _, b := range katoms {
			add("select * where "+a+" & "+b, "select * where "+a+" | "+b, "select count(1) where ("+a+" & "+b+") | key = 'z'", "delete where "+a+" & "+b)
		}
	}
	// patterns that do not compile (and a few unusual ones that do), constant and
	// taken from the data: every evaluation, the first as well as a repeated
	// one, ends in an error value
	for _, pat := range []string{"(", ")", "[", "a[", "*", "+", "?", "a{2,1}", "\\", "(?P<n", "[z-a]", "a**", "(?i", "\\p{Foo}", "", "^$", "(a|", "a{1001}", "\\8", "[[:nope:]]", "(?=a)"} {
		add("select * where key ~= '"+pat+"'", "select key, value ~= '"+pat+"' as m where true", "select * where !(value ~= '"+pat+"') | key = 'zz'", "select count(1) where key ~= '"+pat+"'",
			"select * where key ~= '"+pat+"' & value ~= '"+pat+"'", "select key where key ^= 'k' & upper(value) ~= '"+pat+"' order by key desc limit 2", "delete where value ~= '"+pat+"'")
	}
	add("select * where key ~= value", "select key where value ~= key", "select key, key ~= value + '(' where true", "select count(1) where '(' + key ~= value", "select * where value ~= '(' + value")
	// order by / group by over dynamically typed columns
	add("select key, json(value)['a'] as x where true order by x", "select key, json(value)['a'] as x where true order by x desc, key", "select json(value)['a'] as x, count(1) where true group by x",
		"select key, json(value)['o']['b'] as x where true order by x", "select key, json(value)['l'] as x where true order by key desc limit 2")
	return out
}

func c06Corpus() []string {
	base := c17Corpus()
	extra := []string{
		"select key, int(value) as f1 where f1 > 10",
		"select key, value, l2_distance(list(1,2,3,4), json(value)) as l2 where key ^= 'e' & l2 > 0.6 order by l2 desc limit 5",
		"select count(1), substr(key, 3, 4) as pk where key ^= 'k_' group by pk",
		"select key, ((int(value) + 1) * 8) where key ^= 'p'",
		"select * where key between 'k' and 'l' | key in ('a', 'b') and !(value = '')",
		"select key, list(1,2,3,4)[2] where key ^= 'p'",
		"put ('k3', upper('value3')), ('k4', join(',', 1, 2, 3, 4))",
		"select * where key = 'a';",
		"select min(value), max(value), avg(int(value)), quantile(float(value), 0.9), group_concat(key, '-'), json_arrayagg(value) where true",
		"select `key`, \"x\" as `f` where `f` = \"x\"",
	}
	return append(base, extra...)
}

func c06Long() []string {
	var out []string
	for _, d := range []int{10, 100, 1000, 4000} {
		half := d / 2
		out = append(out,
			"select * where "+strings.Repeat("(", d)+"key = 'a'"+strings.Repeat(")", d),
			"select * where "+strings.Repeat("(", d)+"key = 'a'"+strings.Repeat(")", d-1),
			"select * where "+strings.Repeat("!", d)+"(key = 'a')",
			"select * where "+strings.Repeat("!(", half)+"key = 'a'"+strings.Repeat(")", half),
			"select * where key = '"+strings.Repeat("x", d)+"'",
			"select * where key = '"+strings.Repeat("x", d),
			"select * where key in ("+strings.TrimSuffix(strings.Repeat("'a', ", half/3+1), ", ")+")",
			"select * where key = 'a'"+strings.Repeat(" & key = 'a'", d/12+1),
			"select * where key = 'a'"+strings.Repeat(" | value = 'b'", d/14+1),
			"select * where key ^= 1"+strings.Repeat(" & key = 'a'", d/12+1),
			"select * where key = 'a'"+strings.Repeat(" & key = 'a'", d/12+1)+" & key ^= 1",
			"select "+strings.Repeat("upper(", half/6+1)+"key"+strings.Repeat(")", half/6+1)+" where true",
			"select "+strings.TrimSuffix(strings.Repeat("key, ", d/5+1), ", ")+" where true",
			"select key where int(value)"+strings.Repeat(" + 1", d/4+1)+" > 0",
			"select json(value)"+strings.Repeat("['a']", d/5+1)+" where true",
			"put "+strings.TrimSuffix(strings.Repeat("('k', 'v'), ", d/12+1), ", "),
			"remove "+strings.TrimSuffix(strings.Repeat("'k', ", d/5+1), ", "),
			strings.Repeat(" ", d)+"select * where key ^= 1",
			"select * where key ^= 1"+strings.Repeat(" ", d),
			strings.Repeat("select ", d/7+1),
			strings.Repeat("'", d), strings.Repeat("(", d), strings.Repeat("1 + ", d/4+1), strings.Repeat("key ", d/4+1),
			"select * where key = 'a' limit "+strings.Repeat("9", d/50+1),
			"select * where key = 'a' order by "+strings.TrimSuffix(strings.Repeat("key, ", d/5+1), ", "),
		)
	}
	return out
}

type c06Unit struct {
	fam string
	pre []int // token prefix (family 1)
	lo  int
	hi  int
}

var c06ValidCache, c06EditCache []string

func c06Edits() []string {
	if c06EditCache != nil {
		return c06EditCache
	}
	seen := map[string]bool{}
	var out []string
	for _, q := range c06Corpus() {
		if len(q) > 160 {
			continue
		}
		for _, e := range c17Edits(q) {
			if !seen[e] {
				seen[e] = true
				out = append(out, e)
			}
		}
	}
	c06EditCache = out
	return out
}

func c06Units(t core.Tier) []c06Unit {
	var us []c06Unit
	n := len(c06Alphabet)
	us = append(us, c06Unit{fam: "tok-short"})
	for i := 0; i < n; i++ {
		for j := 0; j < n; j++ {
			us = append(us, c06Unit{fam: "tok", pre: []int{i, j}})
		}
	}
	if c06ValidCache == nil {
		c06ValidCache = c06Valid()
	}
	const per = 60
	for lo := 0; lo < len(c06ValidCache); lo += per {
		us = append(us, c06Unit{fam: "valid", lo: lo, hi: lo + per})
	}
	ed := c06Edits()
	for lo := 0; lo < len(ed); lo += 400 {
		us = append(us, c06Unit{fam: "edit", lo: lo, hi: lo + 400})
	}
	lg := c06Long()
	for lo := 0; lo < len(lg); lo += 4 {
		us = append(us, c06Unit{fam: "long", lo: lo, hi: lo + 4})
	}
	return us
}

func (c06) Units(t core.Tier) int { return len(c06Units(t)) }

func (c06) RunUnit(t core.Tier, u int, r *core.Reporter) {
	un := c06Units(t)[u]
	run := func(q string, stores []int, cfgs [][2]any) {
		// one journalled case per query text: all (store, mode, B) combinations
		// are executed inside it (a query rejected at plan time is planned once)
		qc := c06Case{Query: q, Store: -1, Stores: stores, Cfgs: cfgs}
		if !r.Begin(func() *core.Failure {
			return &core.Failure{Property: "C06", Leg: "no-crash", Case: qc.text(), Data: core.MustJSON(qc)}
		}) {
			return
		}
	combos:
		for _, si := range stores {
			for _, cfg := range cfgs {
				c := c06Case{Query: q, Store: si, Mode: cfg[0].(string), B: cfg[1].(int)}
				f, nontrivial, status, built := c06Judge(&c)
				r.Evals(1)
				if f != nil {
					status = "violation:" + f.Sig
					r.Fail(*f)
				}
				r.Case(c.text(), nontrivial, status)
				if !built {
					break combos // rejected at plan time: data and mode do not matter
				}
			}
		}
	}
	all := []int{0, 1, 2, 3, 4, 5, 6, 7, 8}
	full := [][2]any{{drv.Row, 32}, {drv.Batch, 1}, {drv.Batch, 2}, {drv.Batch, 32}}
	lite := [][2]any{{drv.Row, 32}, {drv.Batch, 2}}
	switch un.fam {
	case "tok-short":
		for _, a := range c06Alphabet {
			run(a, []int{1, 4}, lite)
		}
		run("", []int{1}, lite)
	case "tok":
		max := 5
		if t == core.Thorough {
			max = 6
		}
		var rec func(seq []string)
		rec = func(seq []string) {
			run(strings.Join(seq, " "), []int{1, 4, 5}, lite)
			if len(seq) == max {
				return
			}
			for _, a := range c06Alphabet {
				rec(append(seq[:len(seq):len(seq)], a))
			}
		}
		rec([]string{c06Alphabet[un.pre[0]], c06Alphabet[un.pre[1]]})
		r.Observed(fmt.Sprint(un.pre))
	case "valid":
		for i := un.lo; i < un.hi && i < len(c06ValidCache); i++ {
			run(c06ValidCache[i], all, full)
		}
	case "edit":
		ed := c06Edits()
		for i := un.lo; i < un.hi && i < len(ed); i++ {
			run(ed[i], []int{1, 4, 5}, lite)
		}
	case "long":
		lg := c06Long()
		for i := un.lo; i < un.hi && i < len(lg); i++ {
			run(lg[i], []int{1, 4}, lite)
		}
	}
}

var c06StoreCache [][]store.Pair

func c06Judge(c *c06Case) (f *core.Failure, nontrivial bool, status string, built bool) {
	mk := func(sig, obs string) *core.Failure {
		return &core.Failure{Property: "C06", Leg: "no-crash", Sig: sig, Case: c.text(), Data: core.MustJSON(c), Expected: "every step returns rows or an error value", Observed: obs}
	}
	if c06StoreCache == nil {
		c06StoreCache = c06Stores()
	}
	st := store.New(c06StoreCache[c.Store])
	st.NoLog = true
	out := drv.Run(c.Query, st, drv.Opt{Mode: c.Mode, B: c.B, MaxRows: 5000})
	built = out.BuildErr == nil && !(out.Panic != "" && out.Plan == nil)
	if out.Panic != "" {
		where := "execution"
		if out.Plan == nil {
			where = "planning"
		}
		return mk("panic:"+panicClass(out.Panic), "panic during "+where+": "+out.Panic+"\n"+topFrames(out.Stack)), true, "", built
	}
	status = out.Status()
	if err := out.Err(); err != nil {
		nontrivial = true
		if pan := renderAll(err, c.Query); pan != "" {
			return mk("panic-rendering-error", "rendering the error panicked: "+pan), true, "", built
		}
	} else {
		nontrivial = built
	}
	return nil, nontrivial, status, built
}

func panicClass(p string) string {
	switch {
	case strings.Contains(p, "index out of range"):
		return "index-out-of-range"
	case strings.Contains(p, "slice bounds"):
		return "slice-bounds"
	case strings.Contains(p, "nil pointer"):
		return "nil-dereference"
	case strings.Contains(p, "interface conversion"):
		return "interface-conversion"
	}
	return "other"
}

func topFrames(stack string) string {
	var out []string
	for _, l := range strings.Split(stack, "\n") {
		if strings.Contains(l, "/repo/") || strings.Contains(l, "kvql.") {
			out = append(out, strings.TrimSpace(l))
			if len(out) >= 6 {
				break
			}
		}
	}
	return strings.Join(out, " | ")
}

// renderAll renders an error unbound and bound (paddings 0 and 7, with
// leading / trailing blanks around the query).
func renderAll(err error, q string) (pan string) {
	defer func() {
		if r := recover(); r != nil {
			pan = fmt.Sprint(r)
		}
	}()
	_ = err.Error()
	if qb, ok := err.(kvql.QueryBinder); ok {
		for _, query := range []string{q, "   " + q + "  ", strings.TrimSpace(q)} {
			qb.BindQuery(query)
			for _, p := range []int{0, 7} {
				qb.SetPadding(p)
				_ = err.Error()
			}
		}
		qb.BindQuery("")
	}
	return ""
}

func (c06) Replay(data json.RawMessage) *core.Failure {
	var c c06Case
	if err := json.Unmarshal(data, &c); err != nil {
		return nil
	}
	if c.Store < 0 {
		for _, si := range c.Stores {
			for _, cfg := range c.Cfgs {
				mode, _ := cfg[0].(string)
				b := 2
				switch v := cfg[1].(type) {
				case float64:
					b = int(v)
				case int:
					b = v
				}
				d := c06Case{Query: c.Query, Store: si, Mode: mode, B: b}
				if f, _, _, _ := c06Judge(&d); f != nil {
					return f
				}
			}
		}
		return nil
	}
	f, _, _, _ := c06Judge(&c)
	return f
}

func (c06) Simplify(data json.RawMessage) []json.RawMessage {
	var c c06Case
	if err := json.Unmarshal(data, &c); err != nil || len(c.Query) > 400 {
		return nil
	}
	var out []json.RawMessage
	for _, s := range tokenSpans(c.Query) {
		d := c
		d.Query = strings.TrimSpace(c.Query[:s.lo] + c.Query[s.hi:])
		out = append(out, core.MustJSON(d))
	}
	if c.Mode == drv.Batch && c.B > 1 {
		d := c
		d.B = 1
		out = append(out, core.MustJSON(d))
	}
	return out
}
