package checks

import (
	"encoding/json"
	"fmt"
	"strings"

	"verif/mc/core"
	"verif/mc/drv"
	"verif/mc/ref"
	"verif/mc/store"
)

// C01 — SELECT returns exactly the pairs satisfying WHERE, once each, in key order.

type predCase struct {
	Pred  *ref.Expr    `json:"pred"`
	Store []store.Pair `json:"store"`
	Mode  string       `json:"mode"`
	B     int          `json:"b"`
	Bare  bool         `json:"bare_where,omitempty"` // `where P` instead of `select * where P`
	Del   bool         `json:"delete,omitempty"`     // C02: delete form
	// C02: judged in row mode only (the predicate is evaluable pair by pair
	// only thanks to row-mode short-circuit; batch evaluation may refuse it)
	RowOnly bool `json:"row_only,omitempty"`
}

func (c *predCase) query() string {
	p := c.Pred.Render()
	switch {
	case c.Del:
		return "delete where " + p
	case c.Bare:
		return "where " + p
	}
	return "select * where " + p
}

func (c *predCase) text() string {
	return fmt.Sprintf("%s | mode=%s B=%d store=%s", c.query(), c.Mode, c.B, store.CanonPairs(c.Store))
}

type c01 struct{}

func init() { core.Register(c01{}) }

func (c01) Info() core.Info {
	return core.Info{
		ID:    "C01",
		Title: "SELECT returns exactly the pairs satisfying WHERE, once each, in key order",
		Level: "exploration",
		Rule: "all predicates of depth 1 over the atom pool (field/literal comparisons with the literal on either side, regexps, IN lists incl. duplicates, BETWEEN, conversion/string/arithmetic atoms) on all 128 sub-stores of {'',a,ab,abb,b,ba,c} x {numeric, mixed} values; all depth-2 trees a∘b, !(a), !(a∘b) (quick) and depth-3 trees over a reduced pool (thorough) on fixed stores incl. a 70-pair one; each executed row-at-a-time and in batches of 1,2,3,32 (each twice) and compared with the reference evaluator's rows in key order. " +
			"Non-trivial: the predicate is in the reference's domain on every pair and selects a proper non-empty subset. Distinct: (predicate text, store).",
		Assumptions: []string{
			"reference evaluator written from README.md/spec.md (DESIGN.md §3.2); cases outside its documented domain are counted and not judged",
			"Go's regexp package is trusted for ~=",
			"repetition is checked by running each configuration twice (map-iteration randomness is not under the explorer's control)",
		},
		CrashIsViolation: true,
	}
}

var c01AtomsCache []*ref.Expr

func c01Atoms() []*ref.Expr {
	if c01AtomsCache != nil {
		return c01AtomsCache
	}
	var a []*ref.Expr
	a = append(a, fieldCmpAtoms([]*ref.Expr{ref.Key(), ref.Value()}, litsL)...)
	a = append(a, regexAtoms()...)
	a = append(a, inAtoms(ref.Key(), litsL, 2)...)
	a = append(a, ref.In(ref.Value(), ref.S("1"), ref.S("a")), ref.In(ref.Value(), ref.S("2")))
	// key lists that repeat a key with other keys in between, written unsorted
	k3 := func(ls ...string) *ref.Expr {
		var items []*ref.Expr
		for _, l := range ls {
			items = append(items, ref.S(l))
		}
		return ref.In(ref.Key(), items...)
	}
	a = append(a, k3("a", "b", "a"), k3("c", "a", "zz", "c", "a"), k3("b", "ab", "b", "", "ab"), k3("ba", "a", "a", "ba", "a"), k3("c", "b", "a", "c", "b", "a"))
	a = append(a, betweenAtoms(ref.Key(), litsL)...)
	a = append(a, betweenAtoms(ref.Value(), []string{"1", "2", "a"})...)
	a = append(a, c01FuncAtoms()...)
	c01AtomsCache = a
	return a
}

// a reduced pool for deeper trees: one of each kind plus the interesting ones
func c01SmallAtoms() []*ref.Expr {
	k, v := ref.Key, ref.Value
	iv := func() *ref.Expr { return ref.Call("int", ref.Value()) }
	return []*ref.Expr{
		ref.Bin("=", k(), ref.S("ab")), ref.Bin("=", ref.S("b"), k()), ref.Bin("!=", k(), ref.S("a")),
		ref.Bin("^=", k(), ref.S("a")), ref.Bin("^=", k(), ref.S("ab")), ref.Bin("^=", ref.S("ab"), k()),
		ref.Bin(">", k(), ref.S("ab")), ref.Bin(">=", k(), ref.S("b")), ref.Bin("<", k(), ref.S("b")), ref.Bin("<=", k(), ref.S("ab")),
		ref.Bin(">", ref.S("b"), k()), ref.Bin("<=", ref.S("ab"), k()),
		ref.In(k(), ref.S("a"), ref.S("b")), ref.In(k(), ref.S("ab"), ref.S("ab")), ref.In(k(), ref.S("c")),
		ref.Btw(k(), ref.S("a"), ref.S("b")), ref.Btw(k(), ref.S("ab"), ref.S("c")),
		ref.Bin("=", v(), ref.S("1")), ref.Bin("!=", v(), ref.S("2")), ref.Bin(">", v(), ref.S("1")), ref.Bin("^=", v(), ref.S("1")),
		ref.Bin("~=", k(), ref.S("^a")), ref.Bin("~=", v(), ref.S("^[0-9]+$")),
		ref.Call("is_int", v()), ref.Bin(">", iv(), ref.N(1)), ref.Bin("=", ref.Bin("+", iv(), ref.N(1)), ref.N(3)),
		ref.Btw(iv(), ref.N(2), ref.N(10)), ref.Bin("=", ref.Call("strlen", k()), ref.N(2)),
		ref.Bl(true), ref.Bl(false),
	}
}

var c01Conn = []string{"&", "|", "and", "or"}

type c01Unit struct {
	fam string // d1 | d2 | d2kw | d3
	i   int
}

func c01Units(t core.Tier) []c01Unit {
	var us []c01Unit
	n := len(c01Atoms())
	for i := 0; i < n; i += 8 {
		us = append(us, c01Unit{"d1", i})
	}
	for i := 0; i < n; i++ {
		us = append(us, c01Unit{"d2", i})
	}
	us = append(us, c01Unit{"edge", 0}, c01Unit{"edge", 1})
	for i := range c01SmallAtoms() {
		us = append(us, c01Unit{"d2kw", i})
		if t == core.Thorough {
			us = append(us, c01Unit{"d3", i})
		}
	}
	return us
}

func (c01) Units(t core.Tier) int { return len(c01Units(t)) }

var c01FixedStores = func() [][]store.Pair {
	return [][]store.Pair{
		subsetStore(63, c01NumVals),
		subsetStore(127, c01MixVals),
		subsetStore(0b101101, c01NumVals),
		subsetStore(0b010110, c01MixVals),
		nil,
	}
}()

var c01Big = bigStore(70, []string{"1", "2", "10", "3"})

func (c01) RunUnit(t core.Tier, u int, r *core.Reporter) {
	un := c01Units(t)[u]
	atoms := c01Atoms()
	small := c01SmallAtoms()
	switch un.fam {
	case "d1":
		for i := un.i; i < un.i+8 && i < len(atoms); i++ {
			for mask := 0; mask < 128; mask++ {
				c01Explore(r, atoms[i], subsetStore(mask, c01NumVals), true)
				c01Explore(r, atoms[i], subsetStore(mask, c01MixVals), true)
			}
			c01Explore(r, atoms[i], c01Big, true)
			c01Explore(r, ref.Not(atoms[i]), subsetStore(63, c01NumVals), false)
			c01Explore(r, ref.Not(atoms[i]), subsetStore(63, c01MixVals), false)
		}
	case "d2":
		a := atoms[un.i]
		for _, b := range atoms {
			for _, op := range []string{"&", "|"} {
				p := ref.Bin(op, a.Clone(), b.Clone())
				for si, st := range c01FixedStores {
					c01Explore(r, p, st, false)
					if si < 2 && op == "|" {
						c01Explore(r, ref.Not(p), st, false)
					}
				}
			}
		}
	case "edge":
		c01Edge(r, un.i)
	case "d2kw":
		a := small[un.i]
		for _, b := range small {
			for _, op := range []string{"and", "or", "AND", "Or"} {
				p := ref.Bin(op, a.Clone(), b.Clone())
				c01Explore(r, p, c01FixedStores[0], false)
				c01Explore(r, p, c01FixedStores[3], false)
			}
			p := ref.Bin("&", a.Clone(), b.Clone())
			c01Explore(r, p, c01Big, false)
		}
	case "d3":
		a := small[un.i]
		for _, b := range small {
			for _, c := range small {
				for _, o1 := range []string{"&", "|"} {
					for _, o2 := range []string{"&", "|"} {
						p1 := ref.Bin(o2, ref.Bin(o1, a.Clone(), b.Clone()), c.Clone())
						p2 := ref.Bin(o1, a.Clone(), ref.Bin(o2, b.Clone(), c.Clone()))
						for _, st := range c01FixedStores[:2] {
							c01Explore(r, p1, st, false)
							c01Explore(r, p2, st, false)
						}
					}
				}
				p3 := ref.Bin("&", ref.Not(ref.Bin("|", a.Clone(), b.Clone())), c.Clone())
				c01Explore(r, p3, c01FixedStores[0], false)
			}
		}
	}
}

var c01Configs = []struct {
	mode string
	b    int
}{{drv.Row, 32}, {drv.Batch, 1}, {drv.Batch, 2}, {drv.Batch, 3}, {drv.Batch, 32}}

// c01Explore judges one (predicate, store) in every mode/batch size, twice.
func c01Explore(r *core.Reporter, pred *ref.Expr, ps []store.Pair, alsoBare bool) {
	base := predCase{Pred: pred, Store: ps}
	id := base.query() + " | store=" + store.CanonPairs(ps)
	want, derr := refSelect(pred, store.New(ps).Pairs(), nil)
	if derr != nil {
		// out of the reference's domain: still execute (C06 cares), do not judge
		r.Case(id, false, "out-of-domain")
		return
	}
	wantRows := drv.PairsRows(want)
	nontrivial := len(want) > 0 && len(want) < len(ps)
	status := "ok"
	for ci, cfg := range c01Configs {
		c := base
		c.Mode, c.B = cfg.mode, cfg.b
		if !r.Begin(func() *core.Failure {
			return &core.Failure{Property: "C01", Leg: "select-vs-reference", Case: c.text(), Data: core.MustJSON(c)}
		}) {
			continue
		}
		for rep := 0; rep < 2; rep++ {
			f := c01Judge(&c, wantRows)
			if f == errRejected {
				status = "rejected"
				nontrivial = false
				r.Evals(1)
				break
			}
			if f != nil {
				status = "violation:" + f.Sig
				if rep == 1 {
					f.Sig += "(second run)"
				}
				r.Fail(*f)
				r.Evals(1)
				break
			}
			r.Evals(1)
		}
		if alsoBare && ci == 0 {
			cb := c
			cb.Bare = true
			if f := c01Judge(&cb, wantRows); f != nil && f != errRejected {
				status = "violation:" + f.Sig
				r.Fail(*f)
			}
			r.Evals(1)
		}
	}
	r.Case(id, nontrivial, status)
	r.Observed(strings.Join(wantRows, ";"))
}

// errRejected is a marker, not a failure: the statement was not accepted.
var errRejected = &core.Failure{Sig: "rejected"}

func c01Judge(c *predCase, wantRows []string) *core.Failure {
	st := store.New(c.Store)
	st.NoLog = true
	out := drv.Run(c.query(), st, drv.Opt{Mode: c.Mode, B: c.B})
	mk := func(sig, obs string) *core.Failure {
		return &core.Failure{Property: "C01", Leg: "select-vs-reference", Sig: sig, Case: c.text(), Data: core.MustJSON(c),
			Expected: fmt.Sprintf("%d rows %v", len(wantRows), wantRows), Observed: obs}
	}
	if out.BuildErr != nil && out.Panic == "" {
		// C01 quantifies over accepted queries; acceptance itself is C14's subject
		return errRejected
	}
	if out.Failed() {
		return mk(out.Status(), out.Describe())
	}
	if drv.EqualRows(out.Rows, wantRows) {
		return nil
	}
	return mk(rowDiffSig(out.Rows, wantRows), out.Describe())
}

// rowDiffSig classifies a row-list mismatch.
func rowDiffSig(got, want []string) string {
	ws := map[string]int{}
	for _, w := range want {
		ws[w]++
	}
	gs := map[string]int{}
	for _, g := range got {
		gs[g]++
	}
	missing, extra, dup := false, false, false
	for w := range ws {
		if gs[w] == 0 {
			missing = true
		}
	}
	for g, n := range gs {
		if ws[g] == 0 {
			extra = true
		} else if n > ws[g] {
			dup = true
		}
	}
	switch {
	case missing && extra:
		return "missing-and-extra-rows"
	case missing:
		return "missing-rows"
	case extra:
		return "extra-rows"
	case dup:
		return "duplicate-rows"
	}
	return "wrong-order"
}

func (c01) Replay(data json.RawMessage) *core.Failure {
	var c predCase
	if err := json.Unmarshal(data, &c); err != nil || c.Pred == nil {
		return nil
	}
	want, derr := refSelect(c.Pred, store.New(c.Store).Pairs(), nil)
	if derr != nil {
		return nil
	}
	if f := c01Judge(&c, drv.PairsRows(want)); f != errRejected {
		return f
	}
	return nil
}

func (c01) Simplify(data json.RawMessage) []json.RawMessage {
	var c predCase
	if err := json.Unmarshal(data, &c); err != nil || c.Pred == nil {
		return nil
	}
	return predSimplify(&c)
}

// predSimplify: one-step simplifications of a predicate case, simplest first.
func predSimplify(c *predCase) []json.RawMessage {
	var out []json.RawMessage
	for _, p := range boolSimplifications(c.Pred) {
		d := *c
		d.Pred = p
		out = append(out, core.MustJSON(d))
	}
	for _, ps := range dropOnePair(c.Store) {
		d := *c
		d.Store = ps
		out = append(out, core.MustJSON(d))
	}
	if c.Mode == drv.Batch {
		d := *c
		d.Mode, d.B = drv.Row, 32
		out = append(out, core.MustJSON(d))
		if c.B > 1 {
			d := *c
			d.B = 1
			out = append(out, core.MustJSON(d))
		}
	}
	if c.Bare {
		d := *c
		d.Bare = false
		out = append(out, core.MustJSON(d))
	}
	return out
}

// c01Edge: predicates whose truth hangs on particular stored values.
// Part 0: integers beyond 2^53 (neighbours share one float64 image), the
// int64 limits, decimal text with leading zeros or a sign. Part 1: values with
// bytes that are no text (0xff, 0xfe, 0x00), a line feed, regexp
// metacharacters, the empty value and values that differ only in case.
func c01Edge(r *core.Reporter, part int) {
	k, v, s, n := ref.Key, ref.Value, ref.S, ref.N
	mk := func(vals []string) []store.Pair {
		ps := make([]store.Pair, len(vals))
		for i, x := range vals {
			ps[i] = store.Pair{K: fmt.Sprintf("k%02d", i), V: x}
		}
		return ps
	}
	var preds []*ref.Expr
	var ps []store.Pair
	if part == 0 {
		nums := []int64{7, 9007199254740992, 9007199254740993, 9007199254740994, 1234567890123456789, 9223372036854775806, 9223372036854775807}
		ps = mk([]string{"7", "007", "70", "9007199254740992", "9007199254740993", "9007199254740994", "-9007199254740993", "1234567890123456789", "9223372036854775806", "9223372036854775807", "-1", "0"})
		iv := func() *ref.Expr { return ref.Call("int", v()) }
		for _, x := range nums {
			preds = append(preds, ref.Bin("=", iv(), n(x)), ref.Bin("!=", iv(), n(x)), ref.Bin(">", iv(), n(x)), ref.Bin("<=", iv(), n(x)), ref.Bin("=", n(x), iv()),
				ref.In(iv(), n(x), n(7)), ref.Btw(iv(), n(x-1), n(x)), ref.Bin("=", ref.Bin("-", iv(), n(x)), n(0)), ref.Bin("=", ref.Bin("+", iv(), n(0)), n(x)),
				ref.Bin("=", ref.Call("str", iv()), s(fmt.Sprint(x))), ref.Bin("=", v(), s(fmt.Sprint(x))))
		}
		preds = append(preds, ref.Bin("<", iv(), n(0)), ref.Bin("=", ref.Bin("-", n(0), iv()), n(9007199254740993)), ref.Call("is_int", v()))
	} else {
		vals := []string{"", "a", "A", "ab", "a\x00", "a\x00b", "\xff", "\xfe\xff", "a\xff", "ab\ncd", "a.c", "abc", "a b", "\xc3\xa9"}
		ps = mk(vals)
		for _, x := range vals {
			if strings.ContainsAny(x, "'") {
				continue
			}
			preds = append(preds, ref.Bin("=", v(), s(x)), ref.Bin("!=", v(), s(x)), ref.Bin("<", v(), s(x)), ref.Bin(">=", v(), s(x)), ref.Bin("^=", v(), s(x)), ref.Bin(">", s(x), v()),
				ref.In(v(), s(x), s("A")), ref.Btw(v(), s(""), s(x)), ref.Bin("=", ref.Bin("+", v(), s("!")), s(x+"!")), ref.Bin("=", ref.Call("strlen", v()), n(int64(len(x)))))
		}
		for _, re := range []string{"^a.c$", "cd$", "^ab", "^a$", "b\ncd", "^$", "a b", "^[aA]$"} {
			preds = append(preds, ref.Bin("~=", v(), s(re)))
		}
		preds = append(preds, ref.In(v(), s("a"), s("A")), ref.In(v(), s("ab"), s("a\x00")), ref.Bin("&", ref.Bin(">", v(), s("a")), ref.Bin("<", v(), s("a\xff"))), ref.Bin("=", k(), ref.Bin("+", s("k0"), ref.Call("str", ref.Call("strlen", v())))))
	}
	for _, p := range preds {
		c01Explore(r, p, ps, false)
		c01Explore(r, ref.Not(p), ps, false)
	}
}
