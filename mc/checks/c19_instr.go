//go:build verifinstr

package checks

import "github.com/c4pt0r/kvql"

// Built only together with the generated overlay (run.sh C19): installs the
// package-level-variable access hook of the instrumented kvql.
func init() {
	c19SetHook = func(h func(name string, write bool, site string)) { kvql.VerifHook = h }
	c19SetHeapHook = func(h func(addr uintptr, site string)) { kvql.VerifHeapHook = h }
}
