package checks

import (
	"encoding/json"
	"errors"
	"fmt"
	"strings"

	"verif/mc/core"
	"verif/mc/drv"
	"verif/mc/ref"
	"verif/mc/store"
)

// C13 — SELECT is read-only, rejected statements touch nothing, storage errors surface.

type c13Case struct {
	Stmt  string       `json:"stmt"`
	Store []store.Pair `json:"store"`
	Mode  string       `json:"mode"`
	B     int          `json:"b"`
	Fault int          `json:"fault"` // index of the storage call that fails; -1: none
	// Dirty: the failing read returns what it had read next to the error
	Dirty bool `json:"fault_with_data,omitempty"`
	Rej   bool         `json:"expect_rejected,omitempty"`
}

func (c *c13Case) text() string {
	d := ""
	if c.Dirty {
		d = "+data"
	}
	return fmt.Sprintf("%s | fault@%d%s mode=%s B=%d store=%s", c.Stmt, c.Fault, d, c.Mode, c.B, store.CanonPairs(c.Store))
}

type c13 struct{}

func init() { core.Register(c13{}) }

func (c13) Info() core.Info {
	return core.Info{
		ID:    "C13",
		Title: "SELECT is read-only, rejected statements touch nothing, storage errors surface",
		Level: "fault_enumeration",
		Rule: "for every statement of a pool covering every statement kind and access path (select over empty/point/multi-point/prefix/range/multi-range/full regions x {*, fields, alias filter, order, limit, order+limit, aggregate, group by}; put 1/n; remove 1/n; delete by scan, by direct removal, with limit) plus the C11/C12 write alphabets (thorough), on 3 stores, row and batch drains at B in {1,2,3,32}: one fault-free run records the n storage calls, then a sentinel error is injected at EVERY call index i<n in turn (single-fault enumeration; after a surfaced fault the statement must stop, so a second fault is unreachable). " +
			"Oracles: fault-free SELECT issues no mutating call; a rejected statement issues no mutating call; with a fault at call i the statement returns an error that Is the sentinel, from BuildPlan/Next/Batch, and the call log ends at call i. Non-trivial: a fault at a distinct (statement, store, mode, B, call index). Distinct: the same tuple.",
		Assumptions: []string{"faults are injected one at a time; the injected error is a plain sentinel value compared with errors.Is", "the call counter covers every method of Storage and Cursor"},
	}
}

func c13Selects() []string {
	wheres := []string{
		"false", "key = 'a'", "key in ('a', 'b', 'zz')", "key ^= 'a'", "key > 'a'", "key between 'a' and 'b'", "value = '1'", "true",
		"key ^= 'a' & value != '9'", "key = 'a' | key > 'b'",
		// several cursors / several point reads in one statement
		"key ^= 'a' | key ^= 'b'", "(key >= 'a' & key < 'ab') | key in ('c', 'd')", "key in ('a', 'ab', 'b')", "!(key = 'a')",
	}
	var out []string
	for _, w := range wheres {
		out = append(out,
			"select * where "+w,
			"where "+w,
			"select key, value where "+w,
			"select key, int(value) as n where ("+w+") & n > 0",
			"select key, value where "+w+" order by value desc",
			"select * where "+w+" limit 1, 2",
			"select key, value where "+w+" order by value desc, key asc limit 2",
			"select count(1), sum(int(value)) where "+w,
			"select substr(key, 0, 1) as p, count(1), max(int(value)) where "+w+" group by p",
			"select value, count(1) as c where "+w+" group by value order by c desc limit 3",
			"select key, upper(value) as u where "+w+" order by u, key",
			"select key, count(1) where "+w+" group by key limit 1, 1",
		)
	}
	return out
}

func c13Writes() []string {
	return []string{
		"put ('a', '1')", "put ('zz', 'v'), ('a', upper('x' + key))", "put ('k1', 'v1'), ('k2', 'v2'), ('k3', 'v3')",
		"remove 'a'", "remove 'a', 'b'", "remove 'zz', 'a' + 'b', 'b'",
		"delete where value = '1'", "delete where key in ('a', 'b')", "delete where key = 'a' | key = 'zz'", "delete where key = 'a'",
		"delete where key ^= 'a'", "delete where key ^= 'a' limit 1", "delete where true limit 1, 2", "delete where key > 'a' & value != '2'",
		"delete where key in ('a', 'ab') & value = '1'", "delete where false", "delete where true",
	}
}

func c13Rejected() []string {
	return []string{
		"", ";", "select", "select * where", "select * where key", "select * where key = 1", "select * where 'a'",
		"select key, sum(int(value)) where true", "select key where true group by key", "put ('a', value)", "remove key",
		"delete where", "delete where key", "select * where key = 'a' limit", "select key where key = 'a' order by zz",
		"select * where 1 + 'a' > 2", "where key ^= 1", "select * where key = 'a' limit 1, 2, 3", "select * from x",
		"select * where key in ()", "select * where key between 'a'", "select * where (key = 'a'", "select * where key = 'a')",
		"put ('a')", "put 'a', 'b'", "delete where true limit x", "select *, key where true", "select key as where true",
		"delete where key = 'a' order by key", "select * where key = 'a' group by", "insert ('a', 'b')",
	}
}

var c13Stores = [][]store.Pair{
	nil,
	{{K: "a", V: "1"}, {K: "ab", V: "2"}, {K: "b", V: "1"}},
	{{K: "a", V: "1"}, {K: "ab", V: "2"}, {K: "abb", V: "10"}, {K: "b", V: "1"}, {K: "ba", V: "2"}, {K: "c", V: "10"}, {K: "d", V: "3"}},
}

var c13StmtCache map[core.Tier][]c13Stmt

type c13Stmt struct {
	q   string
	rej bool
}

func c13Stmts(t core.Tier) []c13Stmt {
	if s, ok := c13StmtCache[t]; ok {
		return s
	}
	var out []c13Stmt
	for _, q := range c13Selects() {
		out = append(out, c13Stmt{q, false})
	}
	for _, q := range c13Writes() {
		out = append(out, c13Stmt{q, false})
	}
	for _, q := range c13Rejected() {
		out = append(out, c13Stmt{q, true})
	}
	if t == core.Thorough {
		for _, p := range c11Preds() {
			for _, lim := range c11Limits[:5] {
				w := &wstmt{Kind: "delete", Pred: p, Lim: lim}
				out = append(out, c13Stmt{w.text(), false})
			}
			out = append(out, c13Stmt{"select * where " + p.Render(), false}, c13Stmt{"select key, value where " + p.Render() + " order by value limit 1, 2", false})
		}
		pool := append(c12PairPool(), c12FailingPairs()...)
		for _, p1 := range pool {
			for _, p2 := range pool {
				out = append(out, c13Stmt{(&wstmt{Kind: "put", Pairs: [][2]*ref.Expr{p1, p2}}).text(), false})
			}
		}
		for _, k1 := range c12RemovePool() {
			for _, k2 := range c12RemovePool() {
				out = append(out, c13Stmt{(&wstmt{Kind: "remove", Keys: []*ref.Expr{k1, k2}}).text(), false})
			}
		}
	}
	if c13StmtCache == nil {
		c13StmtCache = map[core.Tier][]c13Stmt{}
	}
	c13StmtCache[t] = out
	return out
}

func (c13) Units(t core.Tier) int { return len(c13Stmts(t)) }

func (c13) RunUnit(t core.Tier, u int, r *core.Reporter) {
	sm := c13Stmts(t)[u]
	for _, ps := range c13Stores {
		for _, mode := range []string{drv.Row, drv.Batch} {
			for _, b := range []int{1, 2, 3, 32} {
				base := c13Case{Stmt: sm.q, Store: ps, Mode: mode, B: b, Fault: -1, Rej: sm.rej}
				n := -1
				if r.Begin(func() *core.Failure {
					return &core.Failure{Property: "C13", Leg: "fault-free", Case: base.text(), Data: core.MustJSON(base)}
				}) {
					f, calls, status := c13Judge(&base)
					n = calls
					r.Evals(1)
					if f != nil {
						status = "violation:" + f.Sig
						r.Fail(*f)
					}
					r.Case(base.text(), false, status)
					r.Count("fault_free_runs", 1)
				}
				for i := 0; i < 2*n; i++ {
					c := base
					c.Fault = i % n
					c.Dirty = i >= n
					if !r.Begin(func() *core.Failure {
						return &core.Failure{Property: "C13", Leg: "fault-surfaces", Case: c.text(), Data: core.MustJSON(c)}
					}) {
						continue
					}
					f, _, status := c13Judge(&c)
					r.Evals(1)
					if f != nil {
						status = "violation:" + f.Sig
						r.Fail(*f)
					}
					r.Case(c.text(), true, status)
					r.Observed(fmt.Sprintf("%s|%s|%s|%d", sm.q, mode, status, i%n))
					r.Count("faults_injected", 1)
				}
			}
		}
	}
}

func isSelect(q string) bool {
	t := strings.ToLower(strings.TrimSpace(q))
	return strings.HasPrefix(t, "select") || strings.HasPrefix(t, "where")
}

func c13Judge(c *c13Case) (f *core.Failure, calls int, status string) {
	st := store.New(c.Store)
	st.FaultAt = c.Fault
	st.FaultWithData = c.Dirty
	out := drv.Run(c.Stmt, st, drv.Opt{Mode: c.Mode, B: c.B, ExtraPoll: 0})
	calls = len(st.Log)
	var logs []string
	for _, o := range st.Log {
		logs = append(logs, o.String())
	}
	logStr := strings.Join(logs, " ")
	leg := "fault-free"
	if c.Fault >= 0 {
		leg = "fault-surfaces"
	}
	mk := func(sig, exp, obs string) *core.Failure {
		return &core.Failure{Property: "C13", Leg: leg, Sig: sig, Case: c.text(), Data: core.MustJSON(c), Expected: exp, Observed: obs}
	}
	if c.Fault < 0 {
		if out.Panic != "" {
			// crashes are C06's subject; here an error outcome
			return nil, calls, "panic(C06)"
		}
		if isSelect(c.Stmt) || out.BuildErr != nil {
			for _, o := range st.Log {
				if o.Mutating() {
					what := "a SELECT"
					if out.BuildErr != nil {
						what = "a rejected statement"
					}
					return mk("mutating-call", what+" issues no mutating storage call", logStr), calls, ""
				}
			}
		}
		if c.Rej {
			if out.BuildErr == nil {
				return nil, calls, "expected-rejection-but-accepted"
			}
			return nil, calls, "rejected"
		}
		return nil, calls, out.Status()
	}
	// a fault was injected at call c.Fault
	fired := false
	for _, o := range st.Log {
		if o.Err {
			fired = true
		}
	}
	if !fired {
		// the run took a different path and never reached call i (cannot happen
		// for a deterministic statement; reported as a harness problem)
		return mk("fault-not-reached", fmt.Sprintf("call %d is reached as in the fault-free run", c.Fault), logStr), calls, ""
	}
	if out.Panic != "" {
		return mk("panic-on-storage-error", "the storage error is returned", out.Describe()+" | "+logStr), calls, ""
	}
	err := out.Err()
	if err == nil {
		return mk("error-swallowed", "the statement returns the storage error", fmt.Sprintf("completed without error: %s | calls: %s", out.Describe(), logStr)), calls, ""
	}
	// "that error": the storage error itself, wrapped or not; a wrapper that keeps
	// its text but not its identity (%v) still surfaces it
	if !errors.Is(err, store.ErrInjected) && !strings.Contains(err.Error(), store.ErrInjected.Error()) {
		return mk("error-replaced", "an error that Is the storage error", fmt.Sprintf("%v | calls: %s", err, logStr)), calls, ""
	}
	if calls != c.Fault+1 {
		return mk("storage-call-after-error", fmt.Sprintf("no storage call after the failing call %d", c.Fault), logStr), calls, ""
	}
	return nil, calls, "surfaced"
}

func (c13) Replay(data json.RawMessage) *core.Failure {
	var c c13Case
	if err := json.Unmarshal(data, &c); err != nil {
		return nil
	}
	f, _, _ := c13Judge(&c)
	return f
}
