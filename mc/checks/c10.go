package checks

import (
	"encoding/json"
	"fmt"
	"math"
	"strconv"
	"strings"

	"verif/mc/core"
	"verif/mc/drv"
	"verif/mc/ref"
	"verif/mc/store"
)

// C10 — scalar functions and list/JSON indexing compute their documented values.

type c10Case struct {
	Probe *ref.Expr    `json:"probe"` // expression over key / value (or constants)
	Form  string       `json:"form"`  // field | where | refuse | context-free
	Lit   *ref.Expr    `json:"lit,omitempty"`
	Store []store.Pair `json:"store"`
	Mode  string       `json:"mode"`
	B     int          `json:"b"`
}

func (c *c10Case) query() string {
	p := c.Probe.RenderStyle(ref.Style{Full: true})
	switch c.Form {
	case "where":
		if c.Lit == nil {
			return "select key where " + p
		}
		return "select key where " + ref.Bin("=", c.Probe, c.Lit).Render()
	}
	return "select key, " + p + " as x where true"
}

func (c *c10Case) text() string {
	return fmt.Sprintf("%s | mode=%s B=%d store=%s", c.query(), c.Mode, c.B, store.CanonPairs(c.Store))
}

type c10 struct{}

func init() { core.Register(c10{}) }

func (c10) Info() core.Info {
	return core.Info{
		ID:    "C10",
		Title: "Scalar functions and list/JSON indexing compute their documented values",
		Level: "exploration",
		Rule: "probe expressions applying each documented scalar function (upper, lower, strlen, str, int, float, is_int, is_float, split, join, len, list, int_list/ilist, float_list/flist, l2_distance, cosine_distance, json) and [n] / [name] indexing chains (to depth 3, on every list representation) to arguments read from key/value; stores rotate a 6-key x 12-value text pool (all 72 (key,value) argument pairs), plus JSON-document stores; every probe is evaluated (a) row-dependent as a select field over the whole store, (b) with each pair's arguments substituted as constants (the constant-folding path), (c) as a WHERE outcome `probe = expected` / Boolean probe, in row mode and batch mode (B in {1,2,32}); different-length vectors must be refused with an error. " +
			"Oracle: an independent re-implementation of each function from its README one-liner (DESIGN.md §3.2); floats compared to 1e-12. Non-trivial: the probe is in the reference's domain on the pair and yields a non-empty / non-zero / true value. Distinct: (probe, form, store, mode, B)." +
			" Also: JSON documents wrapped in and spread out by blanks, tabs and line ends; numeric text inside list() (kept as text or read as a number: only float() / int() of an element and len of the list are judged); (e) representation-free: a probe with a scalar root over lower(key) / lower(value) yields what the probe yields on pairs without upper-case letters (blank-padded numeric text included).",
		Assumptions: []string{"substr and quantile are not in the property's list (left to C03/C06)", "negative integer results are not used as WHERE literals (the language has no unary minus)", "upper/lower are judged on ASCII text only"},
	}
}

var c10Keys = []string{",", "a", "b", "1", "12", "x"}
var c10Vals = []string{"", "a", "Ab", "a,b", "12", "-3", "1.5", "x1", "a,b,,c", "1,2", "0", "3,4",
	// the edges of the int reading: int64 limits and their neighbours, a sign, leading zeros beyond 19 digits
	"9223372036854775807", "9223372036854775808", "-9223372036854775808", "-9223372036854775809", "+5", "0000000000000000000000123",
	// bytes that are no valid UTF-8 next to ASCII letters of both cases
	"\xffaB", "Zz\xc3", "q\xf0\x9fQ",
	// numeric text with blanks around it is no number ("as text" and "as stored bytes" read alike)
	" 1.5", "2.25\n", "\t-3", "4 "}
var c10Docs = []string{
	`{"a":1,"l":[1,"y"],"o":{"b":"x","l":[2,3]},"s":"t"}`,
	`{"a":"x","l":["p","q","r"],"o":{"b":[1,"y"],"l":["z"]},"s":""}`,
	`{"a":2.5,"l":[true,2],"o":{"b":{"c":"deep"},"l":[[1],[2]]},"s":"u,v"}`,
	`{"a":3,"l":[4,5],"o":{"b":"x","l":[6,7.5]},"s":"1,2","v":[1,2,4]}`,
	// a document is a document with blanks around it and inside it (the output
	// of an encoder ends in a line feed; a pretty printer indents)
	" {\"a\":7,\"l\":[8,\"w\"],\"o\":{\"b\":\"x\",\"l\":[9]},\"s\":\"t\"}\n",
	"\t{ \"a\" : \"y\" ,\n  \"l\" : [ 1 , 2 ] , \"o\" : { \"b\" : \"x\" , \"l\" : [ 3 ] } , \"s\" : \"\" }\r\n",
}

func c10Stores() [][]store.Pair {
	var out [][]store.Pair
	for j := range c10Vals {
		ps := make([]store.Pair, len(c10Keys))
		for i, k := range c10Keys {
			ps[i] = store.Pair{K: k, V: c10Vals[(i+j)%len(c10Vals)]}
		}
		out = append(out, ps)
	}
	return out
}

func c10JSONStores() [][]store.Pair {
	var out [][]store.Pair
	for j := range c10Docs {
		var ps []store.Pair
		for i := range c10Docs {
			ps = append(ps, store.Pair{K: fmt.Sprintf("d%d", i), V: c10Docs[(i+j)%len(c10Docs)]})
		}
		out = append(out, ps)
	}
	return out
}

type c10Probe struct {
	e    *ref.Expr
	json bool
}

func c10Probes() []c10Probe {
	k, v, s, n := ref.Key, ref.Value, ref.S, ref.N
	call := ref.Call
	iv := func() *ref.Expr { return call("int", v()) }
	fv := func() *ref.Expr { return call("float", v()) }
	sp := func() *ref.Expr { return call("split", v(), k()) }
	js := func() *ref.Expr { return call("json", v()) }
	ps := []*ref.Expr{
		call("upper", v()), call("lower", v()), call("upper", call("lower", v())), call("upper", k()),
		call("strlen", v()), call("strlen", k()), call("strlen", iv()), call("strlen", call("upper", v())),
		call("is_int", v()), call("is_float", v()), call("is_int", k()), call("is_int", iv()), call("is_float", fv()),
		iv(), fv(), call("int", k()), call("float", iv()), call("int", iv()),
		call("str", iv()), call("int", call("str", iv())), call("str", v()), call("str", call("strlen", v())),
		sp(), call("split", v(), s(",")), call("split", k(), s("1")),
		call("len", sp()), call("len", call("split", v(), s(","))),
		ref.Idx(sp(), n(0)), ref.Idx(call("split", v(), s(",")), n(1)), ref.Idx(call("split", v(), s(",")), n(3)),
		call("join", k(), v(), v()), call("join", k(), v()), call("join", s("-"), k(), v(), iv()), call("join", s(""), v(), k()), call("join", s(", "), n(1), n(2), s("x")),
		// split and join are mutual inverses for a separator that does not occur in the parts
		call("split", call("join", s(";"), v(), k(), s("z")), s(";")),
		call("join", k(), ref.Idx(sp(), n(0)), ref.Idx(sp(), n(1))),
		call("join", s(","), ref.Idx(call("split", v(), s(",")), n(0)), ref.Idx(call("split", v(), s(",")), n(1))),
		call("list", iv(), n(2), n(3)), call("list", fv(), ref.Fl(0.5)), call("list", n(7)), call("list", n(1), iv()),
		call("int_list", iv(), n(7)), call("ilist", n(7), iv(), n(0)), call("float_list", fv(), ref.Fl(0.5)), call("flist", ref.Fl(1.5), fv()),
		call("len", call("list", iv(), n(2), n(3))), call("len", call("int_list", iv())), call("len", call("float_list", fv(), ref.Fl(0.5))),
		ref.Idx(call("list", iv(), n(2), n(3)), n(0)), ref.Idx(call("list", n(1), n(2), n(3)), n(1)), ref.Idx(call("int_list", n(4), iv()), n(1)), ref.Idx(call("float_list", fv(), ref.Fl(0.5)), n(0)), ref.Idx(call("flist", ref.Fl(0.5), ref.Fl(1.5)), n(1)),
		// numeric text handed to list(): whether it is kept as text or read as a
		// number, the element read back with float() / int() is the argument
		call("float", ref.Idx(call("list", v()), n(0))), call("float", ref.Idx(call("list", v(), v()), n(1))), call("float", ref.Idx(call("list", v(), s("2.5")), n(0))),
		call("int", ref.Idx(call("list", v(), s("7")), n(0))), call("len", call("list", v(), v(), v())), call("float", ref.Idx(call("list", s("0.25"), v()), n(1))),
		call("l2_distance", call("list", iv(), n(0)), call("list", n(3), n(4))),
		call("l2_distance", call("list", n(0), n(0)), call("list", n(3), n(4))),
		call("l2_distance", call("float_list", fv(), ref.Fl(0.5)), call("float_list", ref.Fl(1.5), ref.Fl(0.5))),
		call("l2_distance", call("split", v(), s(",")), call("list", n(1), n(2))),
		call("l2_distance", call("int_list", iv()), call("float_list", ref.Fl(0.5))),
		call("cosine_distance", call("list", n(1), n(0)), call("list", iv(), n(1))),
		call("cosine_distance", call("list", n(1), n(2)), call("list", n(2), n(4))),
		call("cosine_distance", call("split", v(), s(",")), call("list", n(3), n(4))),
		// lists of text (the README: "the list type support int, str, float types")
		call("list", v(), k()), call("list", s("a"), s("b")), call("list", k()), ref.Idx(call("list", v(), k()), n(1)), ref.Idx(call("list", s("p"), v(), k()), n(0)),
		call("len", call("list", k(), v(), s("z"))), call("join", s("-"), ref.Idx(call("list", k(), v()), n(1)), ref.Idx(call("list", k(), v()), n(0))),
		// must be refused: different lengths
		call("l2_distance", call("list", iv()), call("list", n(1), n(2))),
		call("cosine_distance", call("list", n(1), n(2), n(3)), call("list", iv(), n(1))),
		call("l2_distance", call("split", v(), s(",")), call("list", n(1), n(2), n(3), n(4), n(5))),
	}
	// every consumer of an integer applied to every producer of one (the result
	// of one function is the argument of the next, whatever Go type carries it)
	for _, p := range []func() *ref.Expr{
		func() *ref.Expr { return call("len", sp()) },
		func() *ref.Expr { return call("len", call("split", v(), s(","))) },
		func() *ref.Expr { return call("len", call("list", iv(), n(2), n(3))) },
		func() *ref.Expr { return call("len", call("list", k(), v())) },
		func() *ref.Expr { return call("len", call("float_list", fv(), ref.Fl(0.5))) },
		func() *ref.Expr { return call("strlen", v()) },
		func() *ref.Expr { return ref.Idx(call("list", iv(), n(2)), n(0)) },
		func() *ref.Expr { return ref.Idx(call("int_list", n(4), iv()), n(1)) },
		func() *ref.Expr { return call("int", call("str", iv())) },
	} {
		ps = append(ps,
			call("str", p()), call("upper", call("str", p())), call("strlen", p()), call("strlen", call("str", p())), call("int", call("str", p())),
			call("float", p()), call("int", p()), call("is_int", call("str", p())), call("join", s("-"), p(), n(7)), call("join", s(""), k(), p()),
			call("list", p(), n(1)), call("int_list", n(1), p()), ref.Idx(call("list", n(0), p()), n(1)), ref.Bin("+", p(), n(1)), ref.Bin("*", n(2), p()),
			call("split", call("str", p()), s("1")), call("len", call("list", p(), p())),
		)
	}
	var out []c10Probe
	for _, e := range ps {
		out = append(out, c10Probe{e, false})
	}
	jp := []*ref.Expr{
		js(), ref.Idx(js(), s("a")), ref.Idx(js(), s("s")), ref.Idx(js(), s("l")), ref.Idx(js(), s("o")),
		ref.Idx(ref.Idx(js(), s("l")), n(0)), ref.Idx(ref.Idx(js(), s("l")), n(1)),
		ref.Idx(ref.Idx(js(), s("o")), s("b")), ref.Idx(ref.Idx(js(), s("o")), s("l")),
		ref.Idx(ref.Idx(ref.Idx(js(), s("o")), s("l")), n(0)), ref.Idx(ref.Idx(ref.Idx(js(), s("o")), s("b")), n(1)), ref.Idx(ref.Idx(ref.Idx(js(), s("o")), s("b")), s("c")),
		call("len", ref.Idx(js(), s("l"))), call("len", ref.Idx(ref.Idx(js(), s("o")), s("l"))),
		call("split", ref.Idx(js(), s("s")), s(",")), call("upper", ref.Idx(js(), s("s"))), call("strlen", ref.Idx(js(), s("s"))),
		// vectors read from a JSON document (the README's own example passes json(value) to l2_distance)
		call("l2_distance", ref.Idx(ref.Idx(js(), s("o")), s("l")), call("list", n(1), n(2))),
		call("l2_distance", call("list", n(1), n(2), n(3)), ref.Idx(js(), s("v"))),
		call("cosine_distance", ref.Idx(js(), s("l")), call("list", n(1), n(2))),
		call("l2_distance", call("split", ref.Idx(js(), s("s")), s(",")), ref.Idx(js(), s("l"))),
	}
	for _, e := range jp {
		out = append(out, c10Probe{e, true})
	}
	return out
}

func (c10) Units(t core.Tier) int { return len(c10Probes()) }

var c10Cfgs = []struct {
	mode string
	b    int
}{{drv.Row, 32}, {drv.Batch, 1}, {drv.Batch, 2}, {drv.Batch, 32}}

func (c10) RunUnit(t core.Tier, u int, r *core.Reporter) {
	pr := c10Probes()[u]
	stores := c10Stores()
	if pr.json {
		stores = c10JSONStores()
	}
	run := func(c c10Case) {
		if !r.Begin(func() *core.Failure {
			return &core.Failure{Property: "C10", Leg: c.Form, Case: c.text(), Data: core.MustJSON(c)}
		}) {
			return
		}
		f, nontrivial, status, obs := c10Judge(&c)
		r.Evals(1)
		if f != nil {
			status = "violation:" + f.Sig
			r.Fail(*f)
		}
		r.Case(c.text(), nontrivial, status)
		r.Observed(obs)
	}
	for _, ps := range stores {
		// keep the pairs on which the probe is defined (or must be refused)
		var in, refuse []store.Pair
		vals := map[string]ref.Val{}
		for _, p := range ps {
			v, err := ref.Eval(pr.e, &ref.Env{Key: p.K, Value: p.V})
			switch {
			case err == nil:
				in = append(in, p)
				vals[p.K] = v
			case ref.IsRefusal(err):
				refuse = append(refuse, p)
			}
		}
		for _, cfg := range c10Cfgs {
			if len(in) > 0 {
				// (a) row-dependent select field over all in-domain pairs
				run(c10Case{Probe: pr.e, Form: "field", Store: in, Mode: cfg.mode, B: cfg.b})
			}
			for _, p := range in {
				// (b) constants: the pair's arguments substituted as literals
				// (evaluated over the whole store: a constant must have the
				// same value in every row of every chunk)
				cexpr := substKV(pr.e, p.K, p.V)
				run(c10Case{Probe: cexpr, Form: "field", Store: in, Mode: cfg.mode, B: cfg.b})
			}
			if len(in) > 1 {
				// (b') half constant: only the key, or only the value, of one pair substituted
				p := in[len(in)/2]
				for _, half := range []*ref.Expr{substHalf(pr.e, p.K, "", true), substHalf(pr.e, "", p.V, false)} {
					if _, err := json.Marshal(half); err != nil || half.Render() == pr.e.Render() {
						continue
					}
					var dom []store.Pair
					for _, q := range in {
						if _, err := ref.Eval(half, &ref.Env{Key: q.K, Value: q.V}); err == nil {
							dom = append(dom, q)
						}
					}
					if len(dom) > 0 {
						run(c10Case{Probe: half, Form: "field", Store: dom, Mode: cfg.mode, B: cfg.b})
					}
				}
			}
			// (c) WHERE outcome
			if len(in) > 0 {
				seen := map[string]bool{}
				for _, p := range in {
					v := vals[p.K]
					lit := litOf(v)
					if v.K == 'B' {
						if !seen["B"] {
							seen["B"] = true
							run(c10Case{Probe: pr.e, Form: "where", Store: in, Mode: cfg.mode, B: cfg.b})
							run(c10Case{Probe: ref.Not(pr.e), Form: "where", Store: in, Mode: cfg.mode, B: cfg.b})
						}
						continue
					}
					if lit == nil || seen[v.Canon()] {
						continue
					}
					seen[v.Canon()] = true
					run(c10Case{Probe: pr.e, Form: "where", Lit: lit, Store: in, Mode: cfg.mode, B: cfg.b})
				}
			}
			// (d) every pair of the store, those outside the documented domain
			// included (an index behind the end, text that is no number ...):
			// whatever a probe yields on a pair, it yields it whichever pairs
			// stand next to it and in either iteration mode
			if cfg.mode == drv.Batch || cfg.b == 32 {
				run(c10Case{Probe: pr.e, Form: "context-free", Store: ps, Mode: cfg.mode, B: cfg.b})
			}
			// (e) a function's value depends on its argument's text, not on how the
			// engine happens to hold that text: `lower(x)` is x for text without
			// upper-case letters, so the probe over lower(key) / lower(value)
			// yields what the probe yields (non-numbers, padded numbers included)
			if c10ScalarRoot(pr.e) {
				var plain []store.Pair
				for _, p := range ps {
					if strings.ToLower(p.K) == p.K && strings.ToLower(p.V) == p.V {
						plain = append(plain, p)
					}
				}
				if len(plain) > 0 {
					run(c10Case{Probe: pr.e, Form: "representation-free", Store: plain, Mode: cfg.mode, B: cfg.b})
				}
			}
			for _, p := range refuse {
				run(c10Case{Probe: pr.e, Form: "refuse", Store: []store.Pair{p}, Mode: cfg.mode, B: cfg.b})
				run(c10Case{Probe: substKV(pr.e, p.K, p.V), Form: "refuse", Store: []store.Pair{p}, Mode: cfg.mode, B: cfg.b})
			}
		}
	}
}

// c10ScalarRoot: the probe is a call whose result is a number, a Boolean or text.
func c10ScalarRoot(e *ref.Expr) bool {
	if e.K != "call" {
		return false
	}
	switch e.Op {
	case "int", "float", "is_int", "is_float", "strlen", "upper", "lower", "len":
		return true
	}
	return false
}

// c10LowerLeaves wraps every key / value leaf in lower().
func c10LowerLeaves(e *ref.Expr) *ref.Expr {
	if e.K == "key" || e.K == "value" {
		return ref.Call("lower", e)
	}
	c := *e
	c.A = make([]*ref.Expr, len(e.A))
	for i, a := range e.A {
		c.A[i] = c10LowerLeaves(a)
	}
	return &c
}

// substKV replaces key / value by text literals.
func substKV(e *ref.Expr, k, v string) *ref.Expr {
	switch e.K {
	case "key":
		return ref.S(k)
	case "value":
		return ref.S(v)
	}
	c := *e
	c.A = make([]*ref.Expr, len(e.A))
	for i, a := range e.A {
		c.A[i] = substKV(a, k, v)
	}
	return &c
}

// substHalf replaces only key (keyOnly) or only value by a text literal.
func substHalf(e *ref.Expr, k, v string, keyOnly bool) *ref.Expr {
	switch {
	case e.K == "key" && keyOnly:
		return ref.S(k)
	case e.K == "value" && !keyOnly:
		return ref.S(v)
	}
	c := *e
	c.A = make([]*ref.Expr, len(e.A))
	for i, a := range e.A {
		c.A[i] = substHalf(a, k, v, keyOnly)
	}
	return &c
}

// litOf renders a scalar reference value as a literal usable in WHERE.
func litOf(v ref.Val) *ref.Expr {
	switch v.K {
	case 'T':
		if strings.ContainsAny(v.T, "'\"`") {
			return nil
		}
		return ref.S(v.T)
	case 'I':
		if v.I < 0 {
			return nil
		}
		return ref.N(v.I)
	case 'F':
		if v.F < 0 || v.F != math.Trunc(v.F*8)/8 {
			return nil // only short dyadic fractions have an exact decimal literal
		}
		return ref.Fl(v.F)
	}
	return nil
}

// canonClose compares canonical values, floats to 1e-12 (recursively inside lists).
func canonClose(got, want string) bool {
	if got == want {
		return true
	}
	if strings.HasPrefix(got, "F:") && strings.HasPrefix(want, "F:") {
		a, e1 := strconv.ParseFloat(got[2:], 64)
		b, e2 := strconv.ParseFloat(want[2:], 64)
		return e1 == nil && e2 == nil && math.Abs(a-b) <= 1e-12*math.Max(1, math.Abs(b))
	}
	return false
}

func c10Judge(c *c10Case) (f *core.Failure, nontrivial bool, status, observed string) {
	mk := func(sig, exp, obs string) *core.Failure {
		return &core.Failure{Property: "C10", Leg: c.Form, Sig: sig, Case: c.text(), Data: core.MustJSON(c), Expected: exp, Observed: obs}
	}
	st := store.New(c.Store)
	st.NoLog = true
	out := drv.Run(c.query(), st, drv.Opt{Mode: c.Mode, B: c.B, KeepRaw: true})
	observed = out.Status() + strings.Join(out.Rows, ";")
	switch c.Form {
	case "refuse":
		if !out.Failed() {
			return mk("not-refused", "an error (vectors of different lengths)", out.Describe()), true, "", observed
		}
		if out.Panic != "" {
			return mk("panic", "an error value", out.Describe()), true, "", observed
		}
		return nil, true, "refused", observed
	case "representation-free":
		tw := *c
		tw.Probe = c10LowerLeaves(c.Probe)
		tw.Form = "field"
		s2 := store.New(c.Store)
		s2.NoLog = true
		o2 := drv.Run(tw.query(), s2, drv.Opt{Mode: c.Mode, B: c.B})
		if out.Panic != "" || o2.Panic != "" {
			return mk("panic", "rows or an error value", out.Describe()+" / "+o2.Describe()), true, "", observed
		}
		if out.Failed() || o2.Failed() {
			if out.Failed() != o2.Failed() {
				return mk("value-depends-on-representation", "the same outcome as "+tw.query()+": "+o2.Describe(), out.Describe()), true, "", observed
			}
			return nil, false, "both-fail", observed
		}
		if !drv.EqualRows(out.Rows, o2.Rows) {
			return mk("value-depends-on-representation", "the rows of "+tw.query()+": "+o2.Describe(), out.Describe()), true, "", observed
		}
		return nil, len(out.Rows) > 0, "ok", observed
	case "context-free":
		// each pair alone, row mode: the probe's value on that pair
		var want []string
		for _, p := range st0(c.Store) {
			s1 := store.New([]store.Pair{p})
			s1.NoLog = true
			o1 := drv.Run(c.query(), s1, drv.Opt{Mode: drv.Row, B: 32})
			if o1.Panic != "" {
				return mk("panic", "rows or an error value", o1.Describe()), true, "", observed
			}
			if o1.Failed() || len(o1.Rows) != 1 {
				return nil, false, "some-pair-fails-alone", observed
			}
			want = append(want, o1.Rows[0])
		}
		if out.Failed() {
			return mk(out.Status(), fmt.Sprintf("each pair alone gives %v", want), out.Describe()), true, "", observed
		}
		if !drv.EqualRows(out.Rows, want) {
			return mk("value-depends-on-neighbours-or-mode", fmt.Sprintf("each pair alone (row mode) gives %v", want), out.Describe()), true, "", observed
		}
		return nil, len(want) > 1, "ok", observed
	case "field":
		var want []string
		for _, p := range st0(c.Store) {
			v, err := ref.Eval(c.Probe, &ref.Env{Key: p.K, Value: p.V})
			if err != nil {
				return nil, false, "out-of-domain", observed
			}
			want = append(want, v.Canon())
			if v.Canon() != `T:""` && v.Canon() != "I:0" && v.Canon() != "B:false" && v.Canon() != "L[]" {
				nontrivial = true
			}
		}
		if out.Failed() {
			return mk(out.Status(), fmt.Sprintf("x = %v", want), out.Describe()), nontrivial, "", observed
		}
		if len(out.Raw) != len(want) {
			return mk("row-count", fmt.Sprintf("%d rows, x = %v", len(want), want), out.Describe()), nontrivial, "", observed
		}
		for i, row := range out.Raw {
			got := ref.Canon(row[1])
			if !canonClose(got, want[i]) {
				sig := "wrong-value"
				if contentOf(got) == contentOf(want[i]) {
					sig = "wrong-kind"
				}
				return mk(sig, fmt.Sprintf("x = %v", want), out.Describe()), nontrivial, "", observed
			}
		}
		return nil, nontrivial, "ok", observed
	case "where":
		var wantKeys []string
		for _, p := range st0(c.Store) {
			var e *ref.Expr = c.Probe
			if c.Lit != nil {
				e = ref.Bin("=", c.Probe, c.Lit)
			}
			v, err := ref.Eval(e, &ref.Env{Key: p.K, Value: p.V})
			if err != nil || v.K != 'B' {
				return nil, false, "out-of-domain", observed
			}
			if v.B {
				wantKeys = append(wantKeys, ref.T(p.K).Canon())
			}
		}
		nontrivial = len(wantKeys) > 0
		if out.BuildErr != nil && out.Panic == "" {
			// statically refused comparison (e.g. list-valued or dynamically typed operands): not judged here
			return nil, false, "rejected", observed
		}
		if out.Failed() {
			return mk(out.Status(), fmt.Sprintf("keys %v", wantKeys), out.Describe()), nontrivial, "", observed
		}
		if !drv.EqualRows(out.Rows, wantKeys) {
			return mk(rowDiffSig(out.Rows, wantKeys), fmt.Sprintf("keys %v", wantKeys), out.Describe()), nontrivial, "", observed
		}
		return nil, nontrivial, "ok", observed
	}
	return nil, false, "?", observed
}

func (c10) Replay(data json.RawMessage) *core.Failure {
	var c c10Case
	if err := json.Unmarshal(data, &c); err != nil || c.Probe == nil {
		return nil
	}
	f, _, _, _ := c10Judge(&c)
	return f
}

func (c10) Simplify(data json.RawMessage) []json.RawMessage {
	var c c10Case
	if err := json.Unmarshal(data, &c); err != nil || c.Probe == nil {
		return nil
	}
	var out []json.RawMessage
	if len(c.Store) > 1 {
		for _, ps := range dropOnePair(c.Store) {
			d := c
			d.Store = ps
			out = append(out, core.MustJSON(d))
		}
	}
	if c.Mode == drv.Batch {
		d := c
		d.Mode, d.B = drv.Row, 32
		out = append(out, core.MustJSON(d))
	}
	return out
}
