package checks

import (
	"encoding/json"
	"fmt"
	"sort"
	"strings"

	"verif/mc/core"
	"verif/mc/drv"
	"verif/mc/store"
)

// C03 — row-at-a-time and batch iteration give the same result at any batch size.

type c03Case struct {
	Query     string       `json:"query"`
	Store     []store.Pair `json:"store"`
	B         int          `json:"b"`
	OrderCols []int        `json:"order_cols,omitempty"` // columns holding the ORDER BY keys (ties compare as multisets)
}

func (c *c03Case) text() string {
	return fmt.Sprintf("%s | B=%d store=%s", c.Query, c.B, store.CanonPairs(c.Store))
}

type c03 struct{}

func init() { core.Register(c03{}) }

func (c03) Info() core.Info {
	return core.Info{
		ID:    "C03",
		Title: "Row-at-a-time and batch iteration give the same result at any batch size",
		Level: "exploration",
		Rule: "statements = select-list x where x order x limit (and aggregate x group x where x order x limit) from pools covering every scalar function, every operator, list/JSON indexing, aliases referenced by WHERE/ORDER/later fields and every aggregate function; stores of sizes 0,1,B-1,B,B+1,2B,2B+1,3B+1 in numeric, mixed-text, CSV and JSON-valued variants, for B in {1,2,3} plus B=32 on 65/70-pair stores (thorough: two extra fields, B=5). Each statement is drained with Next and with Batch on equal stores. " +
			"Oracle: batch ok => row ok; both ok => canonical rows equal position by position (with ORDER BY: equal multisets inside maximal runs of equal order keys). Non-trivial: both complete with >=1 row, or exactly one fails. Distinct: (statement, store, B)." +
			" Family nk: 32 numeric constructs (IN over integer / float / mixed / computed lists, six comparisons, BETWEEN, arithmetic then =) x 8 left operands of every numeric kind, on the integer and the mixed-number stores, as field, as filter and under ORDER BY; plus comparisons / BETWEEN / IN / ORDER BY over a `bignum` store of integers float64 cannot tell apart (2^53 and its neighbours, the int64 limits).",
		Assumptions: []string{"batch failing where row succeeds is allowed (row mode short-circuits & and |)", "columns compared by content via the canonical column form (DESIGN.md §3.2)"},
	}
}

type c03Field struct {
	expr string
	kind string // store variant it needs: "" any | num | csv | json
	ord  bool   // usable as an ORDER BY key (text/number/bool result)
}

func c03Fields() []c03Field {
	return []c03Field{
		{"value", "", true}, {"upper(key)", "", true}, {"lower(value)", "", true},
		{"int(value)", "num", true}, {"float(value)", "num", true}, {"str(int(value))", "num", true},
		{"strlen(value)", "", true}, {"is_int(value)", "", true}, {"is_float(value)", "", true},
		{"substr(value, 0, 1)", "", true}, {"substr(key, 1, 3)", "", true},
		{"split(value, ',')", "csv", false}, {"list(1, 2, 3)", "", false}, {"int_list(1, int(value))", "num", false},
		{"float_list(0.5, float(value))", "num", false}, {"list(int(value), 2)", "num", false}, {"list(value, 2)", "mixnum", false},
		{"len(split(value, ','))", "csv", true}, {"len(list(1, 2, 3))", "", true},
		{"join('-', key, value)", "", true}, {"join(',', 1, 2)", "", true}, {"join('-', key)", "", true},
		{"l2_distance(list(1, 2), list(int(value), 2))", "num", true},
		{"cosine_distance(list(1, 2), list(1, int(value) + 1))", "num", true},
		{"l2_distance(split(value, ','), list(1, 2, 3))", "csvnum", true},
		{"json(value)['a']", "json", false}, {"json(value)['l'][1]", "json", false}, {"json(value)['o']['b']", "json", false},
		{"split(value, ',')[0]", "csv", true}, {"list(1, 2, 3)[1]", "", true}, {"int_list(4, 5)[0]", "", true}, {"float_list(0.5, 1.5)[1]", "", true},
		// an index that lies behind the end of some rows' lists and inside others'
		{"split(value, ',')[1]", "csv", true}, {"split(value, ',')[2]", "csv", true}, {"json(value)['l'][2]", "json", false}, {"split(key + ',' + value, ',')[2]", "csv", true},
		{"key + value", "", true}, {"key + '-' + value", "", true}, {"int(value) + 1", "num", true}, {"int(value) * 2 - 1", "num", true},
		{"int(value) / 2", "num", true}, {"float(value) / 2", "num", true}, {"int(value) + 0.5", "num", true}, {"2 * 3 + int(value)", "num", true},
		{"key = 'a001'", "", true}, {"key ^= 'a00'", "", true}, {"value ~= '^1'", "", true}, {"int(value) > 1", "num", true},
		{"key in ('a001', 'a003')", "", true}, {"int(value) between 1 and 5", "num", true}, {"int(value) in (1, 3)", "num", true},
		{"!(key = 'a001')", "", true}, {"key != 'a002' & value != '2'", "", true}, {"key = 'a001' | value = '3'", "", true},
		{"'x'", "", true}, {"1", "", true}, {"1.5", "", true}, {"true", "", true}, {"1 + 2", "", true}, {"upper('a' + 'b')", "", true},
		{"float(value) = 1.5", "num", true}, {"strlen(upper(key) + lower(value))", "", true},
		{"key + 'a' < key + 'b'", "", true}, {"(value + 'x') + (value + 'y')", "", true}, {"key + value = key + '1'", "", true},
	}
}

type c03Where struct {
	w     string
	kind  string
	alias string // alias definition that must be in the select list ("" none), e.g. "int(value) as n"
}

func c03Wheres() []c03Where {
	return []c03Where{
		{"true", "", ""}, {"false", "", ""}, {"key ^= 'a00'", "", ""}, {"value != '2'", "", ""},
		{"int(value) > 1", "num", ""}, {"is_int(value)", "", ""}, {"key in ('a001', 'a003', 'a004')", "", ""},
		{"!(key = 'a001')", "", ""}, {"key > 'a001' & value < '5'", "", ""}, {"strlen(value) = 1 | key = 'a002'", "", ""},
		{"n > 1", "num", "int(value) as n"}, {"n + 1 > 2 & key != 'a003'", "num", "int(value) as n"},
		{"'a' in s", "csv", "split(value, ',') as s"}, {"u = 'A001' | u = 'A003'", "", "upper(key) as u"},
		{"key in ('a001', 'a002') & n >= 1", "num", "int(value) as n"},
		{"1 in il", "num", "int_list(1, int(value)) as il"},
		{"value in split('1,3,a', ',')", "", ""},
		{"key = 'a002'", "", ""},
		// point reads whose sorted key list starts with keys that are not stored
		// (a whole probe round finds nothing, the stored keys follow)
		{"key in ('a003', 'a000', 'a0005', 'a001', 'a0015', 'a0016', 'a002')", "", ""},
		{"key = 'a0' or key = 'a00' or key = 'a000' | key = 'a002' | key = 'a004'", "", ""},
		{"key > 'a000' & n > 1", "num", "int(value) as n"}, {"key between 'a001' and 'a009' & l > 1", "", "strlen(value) as l"},
		{"key ^= 'a0' & value != '2' & u != 'A003'", "", "upper(key) as u"}, {"value != '1' & n + 1 > 1", "num", "int(value) as n"},
		// one alias referenced three times within the filter, and three times within the select list
		{"n * 2 >= 2 & 6 <= n * 3 & n + 0 < 9", "num", "int(value) as n"},
		{"n > 0", "num", "int(value) as n, n + 1 as a1, n * 2 as a2, n - 3 as a3"},
		{"len(p) >= 1", "csv", "split(value, ',') as p, len(p) as l1, len(p) as l2, len(p) as l3"},
		// predicates that row iteration refuses on some or all pairs (reversed
		// bounds, zero divisors, vectors of different lengths): batch iteration
		// may not complete where row iteration fails
		{"value between 'x' and 'm'", "", ""}, {"int(value) between 100 and 50", "num", ""}, {"value between key and 'A'", "", ""},
		{"key > 'a001' & value between 'zz' and 'z'", "", ""}, {"value between 'zz' and 'z' | key = 'a000'", "", ""},
		{"10 / (int(value) - 2) > 1", "num", ""}, {"key != 'a001' & 10 / (int(value) - 2) > 1", "num", ""},
		{"l2_distance(list(1, 2), split(value, ',')) > 0", "csv", ""},
	}
}

// c03FnKinds: every one-argument scalar function applied to an argument of
// every kind a row can produce (text, integer, float, Boolean, list, a JSON
// member, a number written as text): whatever it yields or refuses, it does
// so in both iteration modes. One entry per function.
func c03FnKinds() [][]c03Field {
	args := []struct{ e, kind string }{
		{"value", ""}, {"int(value)", "num"}, {"float(value)", "num"}, {"is_int(value)", ""}, {"split(value, ',')", "csv"}, {"json(value)['a']", "json"},
		{"strlen(value) * 100", ""}, {"key + value", ""}, {"list(int(value), 2)", "num"}, {"int(value) / 2", "num"}, {"float(value) + 0.25", "num"}, {"key = 'a002'", ""},
	}
	var out [][]c03Field
	for _, fn := range []string{"upper", "lower", "strlen", "str", "int", "float", "is_int", "is_float", "len", "json"} {
		var fs []c03Field
		for _, a := range args {
			fs = append(fs, c03Field{fn + "(" + a.e + ")", a.kind, false})
		}
		fs = append(fs, c03Field{"join('-', " + fn + "(value), " + fn + "(int(value)))", "num", false}, c03Field{"list(" + fn + "(value), " + fn + "(key))", "", false})
		out = append(out, fs)
	}
	return out
}

// c03NumKinds: every construct that compares or combines numbers, with a left
// operand of every numeric kind a row can produce (integer, float with and
// without a fraction, number read from text) against integer, float and mixed
// literals: an integer and a float of the same value are the same number in
// both iteration modes. One entry per left operand.
func c03NumKinds() [][]string {
	lefts := []string{"int(value)", "float(value)", "int(value) * 0.5", "float(value) * 2", "value", "strlen(value) / 1.0", "int(value) / 2", "list(float(value), 2)[0]"}
	forms := []string{
		"{} in (1, 2, 5)", "{} in (1.0, 2)", "{} in (2)", "{} in (1, 2.5)", "{} in (0.5, 1.5, 2.5)", "{} in (int(value), 7)", "{} in (float(value), 7)", "{} in (int(value) * 0.5, 1)",
		"2 in ({}, 1)", "2.0 in (1, {})", "{} = 2", "{} = 2.0", "{} != 1", "{} != 1.0", "{} < 2", "{} <= 2.0", "{} > 1", "{} >= 1.5", "2 <= {}", "1.5 < {}",
		"{} between 1 and 2", "{} between 1.0 and 2.5", "{} between 0.5 and 2", "{} between 2 and 2.0", "2 between {} and 5", "{} + 1 = 3", "{} * 2 = 4.0", "{} - 0.5 = 1.5", "{} / 2 = 1",
		"{} = int(value)", "{} = float(value)", "{} >= int(value) * 0.5",
	}
	var out [][]string
	for _, l := range lefts {
		var fs []string
		for _, f := range forms {
			fs = append(fs, strings.ReplaceAll(f, "{}", l))
		}
		out = append(out, fs)
	}
	return out
}

func c03Limits(b int) []string {
	return []string{"", " limit 0, 2", " limit 1, 2", fmt.Sprintf(" limit %d, 3", b), fmt.Sprintf(" limit %d, 1", 2*b), " limit 0, 0", " limit 2",
		fmt.Sprintf(" limit %d, 2", b+1), fmt.Sprintf(" limit %d, 2", 2*b+1),
		// counts larger than a batch behind offsets that end inside a batch
		fmt.Sprintf(" limit 1, %d", 2*b+1), fmt.Sprintf(" limit %d, %d", b+1, 2*b), " limit 1, 100"}
}

type c03Aggr struct {
	expr string
	kind string
}

func c03Aggrs() []c03Aggr {
	return []c03Aggr{
		{"count(1)", ""}, {"sum(int(value))", "num"}, {"avg(int(value))", "num"}, {"min(int(value))", "num"}, {"max(int(value))", "num"},
		{"sum(float(value))", "num"}, {"avg(float(value))", "num"}, {"min(float(value))", "num"}, {"max(float(value))", "num"},
		{"quantile(float(value), 0.5)", "num"}, {"group_concat(value, ',')", ""}, {"json_arrayagg(value)", ""}, {"json_arrayagg(int(value))", "num"},
		{"sum(int(value)) + 1", "num"}, {"sum(int(value)) * count(1)", "num"}, {"max(int(value)) - min(int(value))", "num"},
		{"count(1) + 0.5", ""}, {"group_concat(key, '')", ""}, {"sum(strlen(value))", ""},
	}
}

// wand: a conjunct added to the filter that names the GROUP BY fields, so the
// filter has computed (and cached) them for the pairs it saw before the
// aggregation groups the pairs it let through.
var c03Groups = []struct{ field, by, wand string }{
	{"", "", ""},
	{"substr(key, 3, 4) as p", "p", ""},
	{"value", "value", ""},
	{"strlen(value) as l, is_int(value) as b", "l, b", ""},
	{"lower(value) as p", "p", "p != 'zz'"},
	{"substr(key, 3, 4) as p, strlen(value) as l", "l, p", "l < 9 & p != 'zz'"},
}

// stores ---------------------------------------------------------------------

func c03Values(kind string) []string {
	switch kind {
	case "num":
		return []string{"1", "3", "2", "10", "1", "5"}
	case "csv":
		return []string{"a,b", "1,2,3", "x", "b,a,c", "a"}
	case "csvnum":
		return []string{"1,2,3", "3,2,1", "0,0,0"}
	case "json":
		return []string{`{"a":1,"l":[1,2],"o":{"b":2}}`, `{"a":"x","l":["p","q"],"o":{"b":"y"}}`, `{"a":2.5,"l":[true,null,3],"o":{"b":[1]}}`, `{"z":0}`}
	case "mixnum":
		return []string{"1", "1.5", "2", "0.5"}
	case "bignum":
		// integers that float64 cannot tell apart (beyond 2^53, next to the int64 limits)
		return []string{"9007199254740991", "9007199254740992", "9007199254740993", "9007199254740994", "7", "9223372036854775806", "9223372036854775807", "-9223372036854775807", "-9007199254740993"}
	}
	return []string{"a", "1", "ab", "2", "A1", ""}
}

func c03Store(kind string, n int) []store.Pair {
	vals := c03Values(kind)
	ps := make([]store.Pair, n)
	for i := range ps {
		ps[i] = store.Pair{K: fmt.Sprintf("a%03d", i+1), V: vals[i%len(vals)]}
	}
	return ps
}

func c03Sizes(b int) []int {
	m := map[int]bool{}
	for _, n := range []int{0, 1, b - 1, b, b + 1, 2 * b, 2*b + 1, 3*b + 1} {
		if n >= 0 {
			m[n] = true
		}
	}
	var out []int
	for n := range m {
		out = append(out, n)
	}
	sort.Ints(out)
	return out
}

// units ----------------------------------------------------------------------

type c03Unit struct {
	fam string // sel | aggr
	i   int
}

func c03Units(t core.Tier) []c03Unit {
	var us []c03Unit
	for i := range c03Fields() {
		us = append(us, c03Unit{"sel", i})
	}
	for i := range c03Aggrs() {
		us = append(us, c03Unit{"aggr", i})
	}
	for i := range c03FnKinds() {
		us = append(us, c03Unit{"fk", i})
	}
	for i := range c03NumKinds() {
		us = append(us, c03Unit{"nk", i})
	}
	return us
}

func (c03) Units(t core.Tier) int { return len(c03Units(t)) }

func kindCompatible(a, b string) (string, bool) {
	if a == "" {
		return b, true
	}
	if b == "" || a == b {
		return a, true
	}
	return "", false
}

func (c03) RunUnit(t core.Tier, u int, r *core.Reporter) {
	un := c03Units(t)[u]
	bs := []int{1, 2, 3}
	if t == core.Thorough {
		bs = []int{1, 2, 3, 5}
	}
	run := func(q string, kind string, orderCols []int, b int) {
		sizes := c03Sizes(b)
		if b == 32 {
			sizes = []int{65, 70}
		}
		for _, n := range sizes {
			c := c03Case{Query: q, Store: c03Store(kind, n), B: b, OrderCols: orderCols}
			if !r.Begin(func() *core.Failure {
				return &core.Failure{Property: "C03", Leg: "row-vs-batch", Case: c.text(), Data: core.MustJSON(c)}
			}) {
				continue
			}
			f, nontrivial, status, obs := c03Judge(&c)
			r.Evals(2)
			if f != nil {
				status = "violation:" + f.Sig
				r.Fail(*f)
			}
			r.Case(c.text(), nontrivial, status)
			r.Observed(obs)
		}
	}
	switch un.fam {
	case "sel":
		f := c03Fields()[un.i]
		extra := []string{""}
		if t == core.Thorough {
			extra = []string{"", "strlen(x) as sx", "upper(key) as uk"}
		}
		for _, w := range c03Wheres() {
			kind, ok := kindCompatible(f.kind, w.kind)
			if !ok {
				continue
			}
			for _, ex := range extra {
				if ex == "strlen(x) as sx" && !f.ord {
					continue
				}
				sel := "key, " + f.expr + " as x"
				if w.alias != "" {
					sel += ", " + w.alias
				}
				if ex != "" {
					sel += ", " + ex
				}
				orders := []struct {
					o    string
					cols []int
				}{{"", nil}, {" order by key desc", []int{0}}}
				if f.ord {
					orders = append(orders, struct {
						o    string
						cols []int
					}{" order by x asc", []int{1}}, struct {
						o    string
						cols []int
					}{" order by x desc, key asc", []int{1, 0}})
				}
				for _, b := range append(append([]int(nil), bs...), 32) {
					for _, o := range orders {
						for li, lim := range c03Limits(b) {
							if b == 32 && (li%2 == 1 || o.o == "") && !(o.o == "" && li == 0) {
								continue // B=32: a slice of the pools
							}
							run("select "+sel+" where "+w.w+o.o+lim, kind, o.cols, b)
						}
					}
				}
			}
		}
	case "nk":
		for _, e := range c03NumKinds()[un.i] {
			for _, kind := range []string{"num", "mixnum"} {
				for _, b := range append(append([]int(nil), bs...), 32) {
					run("select key, "+e+" as x where true", kind, nil, b)
					run("select key where "+e, kind, nil, b)
					run("select key, value where key > 'a001' & ("+e+") order by value desc", kind, nil, b)
				}
			}
		}
		if un.i == 0 {
			// integers are compared as integers in both modes, beyond 2^53 too
			for _, e := range []string{"int(value) >= 9007199254740993", "int(value) > 9007199254740992", "int(value) < 9007199254740993", "9007199254740993 <= int(value)",
				"int(value) <= 9223372036854775806", "int(value) = 9007199254740993", "int(value) != 9007199254740992", "int(value) between 9007199254740993 and 9223372036854775806",
				"int(value) in (9007199254740993, 7)", "int(value) - 1 > 9007199254740991", "int(value) > int(value) - 1", "int(value) < 0 - 9007199254740992"} {
				for _, b := range append(append([]int(nil), bs...), 32) {
					run("select key, "+e+" as x where true", "bignum", nil, b)
					run("select key where "+e, "bignum", nil, b)
				}
			}
			for _, b := range append(append([]int(nil), bs...), 32) {
				run("select key, int(value) as n where true order by n", "bignum", []int{1}, b)
				run("select key, int(value) as n where true order by n desc", "bignum", []int{1}, b)
			}
		}
	case "fk":
		for _, f := range c03FnKinds()[un.i] {
			for _, b := range append(append([]int(nil), bs...), 32) {
				run("select key, "+f.expr+" as x where true", f.kind, nil, b)
				run("select key, "+f.expr+" as x where key > 'a001' & value != '2'", f.kind, nil, b)
				run("select key where "+f.expr+" = "+f.expr, f.kind, nil, b)
			}
		}
	case "aggr":
		a := c03Aggrs()[un.i]
		for _, w := range c03Wheres() {
			if w.alias != "" {
				continue
			}
			kind, ok := kindCompatible(a.kind, w.kind)
			if !ok {
				continue
			}
			for _, g := range c03Groups {
				sel := a.expr + " as x"
				grp := ""
				ncol := 1
				if g.field != "" {
					sel = g.field + ", " + sel
					grp = " group by " + g.by
					ncol = 1 + strings.Count(g.field, ",") + 1
				}
				xcol := ncol - 1
				orders := []struct {
					o    string
					cols []int
				}{{"", nil}, {" order by x desc", []int{xcol}}}
				where := w.w
				if g.wand != "" {
					where = "(" + w.w + ") & " + g.wand
				}
				for _, b := range append(append([]int(nil), bs...), 32) {
					for _, o := range orders {
						for li, lim := range c03Limits(b) {
							if b == 32 && li > 1 {
								continue
							}
							if g.wand != "" && li > 2 {
								continue
							}
							run("select "+sel+" where "+where+grp+o.o+lim, kind, o.cols, b)
						}
					}
				}
			}
		}
	}
}

// tieRuns splits canonical rows into maximal runs of equal order keys and
// returns each run as (key, sorted multiset text).
func tieRuns(rows []string, cols []int) []string {
	keyOf := func(row string) string {
		parts := strings.Split(row, " | ")
		var k []string
		for _, c := range cols {
			if c < len(parts) {
				k = append(k, parts[c])
			}
		}
		return strings.Join(k, "\x00")
	}
	var out []string
	i := 0
	for i < len(rows) {
		j := i
		k := keyOf(rows[i])
		for j < len(rows) && keyOf(rows[j]) == k {
			j++
		}
		run := append([]string(nil), rows[i:j]...)
		sort.Strings(run)
		out = append(out, strings.Join(run, " ;; "))
		i = j
	}
	return out
}

func c03Judge(c *c03Case) (f *core.Failure, nontrivial bool, status, observed string) {
	mk := func(sig, exp, obs string) *core.Failure {
		return &core.Failure{Property: "C03", Leg: "row-vs-batch", Sig: sig, Case: c.text(), Data: core.MustJSON(c), Expected: exp, Observed: obs}
	}
	s1 := store.New(c.Store)
	s1.NoLog = true
	row := drv.Run(c.Query, s1, drv.Opt{Mode: drv.Row, B: c.B})
	if row.BuildErr != nil && row.Panic == "" {
		return nil, false, "rejected", "rejected"
	}
	s2 := store.New(c.Store)
	s2.NoLog = true
	bat := drv.Run(c.Query, s2, drv.Opt{Mode: drv.Batch, B: c.B})
	observed = bat.Status() + strings.Join(bat.Rows, ";")
	if bat.Panic != "" || row.Panic != "" {
		// an error value may legitimately come from one mode only; a panic is never a result
		return mk("panic", "rows or an error value in both modes", "row: "+row.Describe()+" ; batch: "+bat.Describe()), true, "", observed
	}
	if !bat.Failed() && row.Failed() {
		return mk("row-fails-where-batch-succeeds", "row iteration completes (batch iteration does: "+bat.Describe()+")", "row: "+row.Describe()), true, "", observed
	}
	if bat.Failed() {
		if row.Failed() {
			return nil, false, "both-fail", observed
		}
		return nil, true, "batch-fails-only(allowed)", observed
	}
	nontrivial = len(row.Rows) > 0
	same := false
	if len(c.OrderCols) == 0 {
		same = drv.EqualRows(row.Rows, bat.Rows)
	} else {
		a, b := tieRuns(row.Rows, c.OrderCols), tieRuns(bat.Rows, c.OrderCols)
		same = drv.EqualRows(a, b)
	}
	if !same {
		sig := "rows-differ"
		if len(row.Rows) != len(bat.Rows) {
			sig = "row-count-differs"
		} else {
			// same multiset?
			x, y := append([]string(nil), row.Rows...), append([]string(nil), bat.Rows...)
			sort.Strings(x)
			sort.Strings(y)
			if drv.EqualRows(x, y) {
				sig = "order-differs"
			} else if kindOnlyDiff(row.Rows, bat.Rows) {
				sig = "value-kind-differs"
			}
		}
		return mk(sig, "row: "+row.Describe(), "batch: "+bat.Describe()), nontrivial, "", observed
	}
	return nil, nontrivial, "ok", observed
}

// kindOnlyDiff: rows equal after stripping the kind tags (I:/F:/T:).
func kindOnlyDiff(a, b []string) bool {
	strip := func(s string) string {
		r := strings.NewReplacer("I:", "", "F:", "", "T:", "", "\"", "")
		return r.Replace(s)
	}
	if len(a) != len(b) {
		return false
	}
	for i := range a {
		if strip(a[i]) != strip(b[i]) {
			return false
		}
	}
	return true
}

func (c03) Replay(data json.RawMessage) *core.Failure {
	var c c03Case
	if err := json.Unmarshal(data, &c); err != nil {
		return nil
	}
	f, _, _, _ := c03Judge(&c)
	return f
}

func (c03) Simplify(data json.RawMessage) []json.RawMessage {
	var c c03Case
	if err := json.Unmarshal(data, &c); err != nil {
		return nil
	}
	var out []json.RawMessage
	for _, ps := range dropOnePair(c.Store) {
		d := c
		d.Store = ps
		out = append(out, core.MustJSON(d))
	}
	// drop a trailing limit / order clause
	if i := strings.LastIndex(c.Query, " limit "); i > 0 {
		d := c
		d.Query = c.Query[:i]
		out = append(out, core.MustJSON(d))
	}
	if i := strings.LastIndex(c.Query, " order by "); i > 0 && !strings.Contains(c.Query[i:], " limit ") {
		d := c
		d.Query = c.Query[:i]
		d.OrderCols = nil
		out = append(out, core.MustJSON(d))
	}
	if c.B > 1 {
		d := c
		d.B = 1
		out = append(out, core.MustJSON(d))
	}
	return out
}
