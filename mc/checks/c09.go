package checks

import (
	"encoding/json"
	"fmt"
	"strconv"
	"strings"

	"verif/mc/core"
	"verif/mc/drv"
	"verif/mc/ref"
	"verif/mc/store"
)

// C09 — GROUP BY partitions by value tuples and aggregates equal their definitions.

type c09Case struct {
	Groups []int        `json:"groups"` // indexes into c09GroupExprs
	Aggrs  []int        `json:"aggrs"`  // indexes into c09AggrItems
	Where  int          `json:"where"`  // index into c09Wheres
	Uni    string       `json:"universe"`
	Store  []store.Pair `json:"store"`
	Mode   string       `json:"mode"`
	B      int          `json:"b"`
	// Hide: the grouping expressions (key / value only) are not selected: the
	// statement returns the aggregates of each group, one row per group
	Hide bool `json:"hide_groups,omitempty"`
	// DupName (one aliased grouping expression E as g): the statement selects
	// `E as g, g as gg` and groups by `gg, gg` - the same partition as group by g
	DupName bool `json:"dup_name,omitempty"`
	// Lim (no ORDER BY): `limit Lim[0], Lim[1]` behind GROUP BY - that window of
	// the groups, each still folded over all of its pairs
	Lim []int `json:"limit,omitempty"`
}

type c09Group struct {
	e    *ref.Expr
	as   string // alias ("" for key/value)
	name string // name used in GROUP BY
}

func c09GroupExprs() []c09Group {
	return []c09Group{
		{ref.Key(), "", "key"},
		{ref.Value(), "", "value"},
		{ref.Call("substr", ref.Key(), ref.N(0), ref.N(1)), "p", "p"},
		{ref.Call("strlen", ref.Value()), "l", "l"},
		{ref.Call("upper", ref.Value()), "u", "u"},
		{ref.Call("is_int", ref.Value()), "b", "b"},
		{ref.Call("strlen", ref.Key()), "kl", "kl"},
		// float-valued grouping expressions (only on the float universes)
		{ref.Call("float", ref.Value()), "f", "f"},
		{ref.Bin("*", ref.Call("float", ref.Value()), ref.Fl(0.5)), "h", "h"},
		// the key's second byte: empty for one-byte keys (only on the universe with empty values)
		{ref.Call("substr", ref.Key(), ref.N(1), ref.N(2)), "s2", "s2"},
	}
}

// c09FloatGroup: indexes of the float-valued grouping expressions.
func c09FloatGroup(gi int) bool { return gi == 7 || gi == 8 }

// c09EmptyGroup: the grouping expression that can be empty.
func c09EmptyGroup(gi int) bool { return gi == 9 }

type c09Aggr struct {
	text string
	dom  string // "" any | int | float
	eval func(ps []store.Pair) (ref.Val, bool)
}

func c09Nums(ps []store.Pair, float bool) ([]ref.Val, bool) {
	out := make([]ref.Val, len(ps))
	for i, p := range ps {
		if float {
			f, ok := ref.ParseFloatText(p.V)
			if !ok {
				return nil, false
			}
			out[i] = ref.F(f)
		} else {
			n, ok := ref.ParseIntText(p.V)
			if !ok {
				return nil, false
			}
			out[i] = ref.I(n)
		}
	}
	return out, true
}

func c09Fold(fn string, vs []ref.Val) ref.Val {
	float := len(vs) > 0 && vs[0].K == 'F'
	switch fn {
	case "count":
		return ref.I(int64(len(vs)))
	case "sum":
		if float {
			s := 0.0
			for _, v := range vs {
				s += v.F
			}
			return ref.F(s)
		}
		var s int64
		for _, v := range vs {
			s += v.I
		}
		return ref.I(s)
	case "avg":
		if float {
			s := 0.0
			for _, v := range vs {
				s += v.F
			}
			return ref.F(s / float64(len(vs)))
		}
		var s int64
		for _, v := range vs {
			s += v.I
		}
		return ref.F(float64(s) / float64(len(vs)))
	case "min", "max":
		best := vs[0]
		for _, v := range vs[1:] {
			less, greater := v.Num() < best.Num(), v.Num() > best.Num()
			if v.K == 'I' && best.K == 'I' {
				// integers are ordered exactly (not through their float64 image)
				less, greater = v.I < best.I, v.I > best.I
			}
			if (fn == "min" && less) || (fn == "max" && greater) {
				best = v
			}
		}
		return best
	}
	return ref.Null()
}

func arith(op string, a, b ref.Val) (ref.Val, bool) {
	lit := func(v ref.Val) *ref.Expr {
		if v.K == 'I' {
			return ref.N(v.I)
		}
		return ref.Fl(v.F)
	}
	r, err := ref.Eval(ref.Bin(op, lit(a), lit(b)), &ref.Env{})
	return r, err == nil
}

func c09AggrItems() []c09Aggr {
	var out []c09Aggr
	out = append(out, c09Aggr{"count(1)", "", func(ps []store.Pair) (ref.Val, bool) { return ref.I(int64(len(ps))), true }})
	for _, dom := range []string{"int", "float"} {
		dom := dom
		arg := dom + "(value)"
		for _, fn := range []string{"sum", "min", "max", "avg"} {
			fn := fn
			out = append(out, c09Aggr{fn + "(" + arg + ")", dom, func(ps []store.Pair) (ref.Val, bool) {
				vs, ok := c09Nums(ps, dom == "float")
				if !ok {
					return ref.Val{}, false
				}
				return c09Fold(fn, vs), true
			}})
		}
		out = append(out, c09Aggr{"sum(" + arg + ") + 1", dom, func(ps []store.Pair) (ref.Val, bool) {
			vs, ok := c09Nums(ps, dom == "float")
			if !ok {
				return ref.Val{}, false
			}
			return arith("+", c09Fold("sum", vs), ref.I(1))
		}})
		out = append(out, c09Aggr{"sum(" + arg + ") * count(1)", dom, func(ps []store.Pair) (ref.Val, bool) {
			vs, ok := c09Nums(ps, dom == "float")
			if !ok {
				return ref.Val{}, false
			}
			return arith("*", c09Fold("sum", vs), ref.I(int64(len(vs))))
		}})
		out = append(out, c09Aggr{"max(" + arg + ") - min(" + arg + ")", dom, func(ps []store.Pair) (ref.Val, bool) {
			vs, ok := c09Nums(ps, dom == "float")
			if !ok {
				return ref.Val{}, false
			}
			return arith("-", c09Fold("max", vs), c09Fold("min", vs))
		}})
	}
	// the raw values, some reading as integers and some as floats: the sum and
	// the average are those of all the numbers (a float as soon as one of them is)
	mixed := func(ps []store.Pair) ([]ref.Val, bool) {
		out := make([]ref.Val, len(ps))
		anyF := false
		for i, p := range ps {
			if n, ok := ref.ParseIntText(p.V); ok {
				out[i] = ref.I(n)
			} else if f, ok := ref.ParseFloatText(p.V); ok {
				out[i] = ref.F(f)
				anyF = true
			} else {
				return nil, false
			}
		}
		if anyF {
			for i := range out {
				out[i] = ref.F(out[i].Num())
			}
		}
		return out, true
	}
	for _, fn := range []string{"sum", "avg"} {
		fn := fn
		out = append(out, c09Aggr{fn + "(value)", "mixed", func(ps []store.Pair) (ref.Val, bool) {
			vs, ok := mixed(ps)
			if !ok {
				return ref.Val{}, false
			}
			return c09Fold(fn, vs), true
		}})
	}
	// the smallest / largest of the raw numbers, integers and floats compared
	// by value; the result is that element (an integer stays an integer)
	for _, fn := range []string{"min", "max"} {
		fn := fn
		out = append(out, c09Aggr{fn + "(value)", "mixed", func(ps []store.Pair) (ref.Val, bool) {
			var best ref.Val
			for i, p := range ps {
				var v ref.Val
				if n, ok := ref.ParseIntText(p.V); ok {
					v = ref.I(n)
				} else if f, ok := ref.ParseFloatText(p.V); ok {
					v = ref.F(f)
				} else {
					return ref.Val{}, false
				}
				if i == 0 || (fn == "min" && v.Num() < best.Num()) || (fn == "max" && v.Num() > best.Num()) {
					best = v
				}
			}
			if len(ps) == 0 {
				return ref.Null(), true
			}
			return best, true
		}})
	}
	out = append(out, c09Aggr{"sum(value) * 2", "mixed", func(ps []store.Pair) (ref.Val, bool) {
		vs, ok := mixed(ps)
		if !ok {
			return ref.Val{}, false
		}
		return arith("*", c09Fold("sum", vs), ref.I(2))
	}})
	out = append(out, c09Aggr{"group_concat(value, ',')", "", func(ps []store.Pair) (ref.Val, bool) {
		parts := make([]string, len(ps))
		for i, p := range ps {
			parts[i] = p.V
		}
		return ref.T(strings.Join(parts, ",")), true
	}})
	out = append(out, c09Aggr{"group_concat(key, '')", "", func(ps []store.Pair) (ref.Val, bool) {
		s := ""
		for _, p := range ps {
			s += p.K
		}
		return ref.T(s), true
	}})
	out = append(out, c09Aggr{"json_arrayagg(value)", "", func(ps []store.Pair) (ref.Val, bool) {
		l := make([]ref.Val, len(ps))
		for i, p := range ps {
			l[i] = ref.T(p.V)
		}
		return ref.List(l), true
	}})
	out = append(out, c09Aggr{"json_arrayagg(int(value))", "int", func(ps []store.Pair) (ref.Val, bool) {
		vs, ok := c09Nums(ps, false)
		if !ok {
			return ref.Val{}, false
		}
		l := make([]ref.Val, len(vs))
		for i, v := range vs {
			l[i] = ref.F(float64(v.I)) // JSON numbers
		}
		return ref.List(l), true
	}})
	// aggregates over a grouping expression's name: the name stands for the
	// expression on each pair of the group (see c09AliasAggr)
	out = append(out, c09Aggr{"sum(l)", "", func(ps []store.Pair) (ref.Val, bool) {
		var n int64
		for _, p := range ps {
			n += int64(len(p.V))
		}
		return ref.I(n), true
	}})
	out = append(out, c09Aggr{"sum(kl) * 2", "", func(ps []store.Pair) (ref.Val, bool) {
		var n int64
		for _, p := range ps {
			n += int64(len(p.K))
		}
		return ref.I(2 * n), true
	}})
	out = append(out, c09Aggr{"group_concat(u, ',')", "", func(ps []store.Pair) (ref.Val, bool) {
		parts := make([]string, len(ps))
		for i, p := range ps {
			parts[i] = strings.ToUpper(p.V)
		}
		return ref.T(strings.Join(parts, ",")), true
	}})
	out = append(out, c09Aggr{"group_concat(p, '')", "", func(ps []store.Pair) (ref.Val, bool) {
		s := ""
		for _, p := range ps {
			if len(p.K) > 0 {
				s += p.K[:1]
			}
		}
		return ref.T(s), true
	}})
	out = append(out, c09Aggr{"min(f)", "float", func(ps []store.Pair) (ref.Val, bool) {
		vs, ok := c09Nums(ps, true)
		if !ok {
			return ref.Val{}, false
		}
		return c09Fold("min", vs), true
	}})
	// several aggregate calls with different arguments in one field
	out = append(out, c09Aggr{"sum(int(value)) - sum(strlen(key))", "int", func(ps []store.Pair) (ref.Val, bool) {
		vs, ok := c09Nums(ps, false)
		if !ok {
			return ref.Val{}, false
		}
		var n int64
		for _, p := range ps {
			n += int64(len(p.K))
		}
		return arith("-", c09Fold("sum", vs), ref.I(n))
	}})
	out = append(out, c09Aggr{"max(strlen(key)) * 100 + min(strlen(value))", "", func(ps []store.Pair) (ref.Val, bool) {
		var mk, mv int64 = 0, 1 << 40
		for _, p := range ps {
			if int64(len(p.K)) > mk {
				mk = int64(len(p.K))
			}
			if int64(len(p.V)) < mv {
				mv = int64(len(p.V))
			}
		}
		if len(ps) == 0 {
			return ref.Val{}, false
		}
		return ref.I(mk*100 + mv), true
	}})
	out = append(out, c09Aggr{"group_concat(key, '') + '/' + group_concat(value, '')", "", func(ps []store.Pair) (ref.Val, bool) {
		a, b := "", ""
		for _, p := range ps {
			a += p.K
			b += p.V
		}
		return ref.T(a + "/" + b), true
	}})
	// arithmetic with an aggregate field that is named before the select list
	// defines it (c09Case.query appends `count(1) as cn` behind the aggregates)
	out = append(out, c09Aggr{"sum(int(value)) + cn", "int", func(ps []store.Pair) (ref.Val, bool) {
		vs, ok := c09Nums(ps, false)
		if !ok {
			return ref.Val{}, false
		}
		return arith("+", c09Fold("sum", vs), ref.I(int64(len(vs))))
	}})
	out = append(out, c09Aggr{"cn * 10 + sum(strlen(key))", "", func(ps []store.Pair) (ref.Val, bool) {
		var n int64
		for _, p := range ps {
			n += int64(len(p.K))
		}
		return ref.I(int64(len(ps))*10 + n), true
	}})
	return out
}

// gsAlias: grouping expression gi is selected under an alias.
func gsAlias(gi int) bool { return c09GroupExprs()[gi].as != "" }

// usesCn: the statement names the trailing aggregate field cn.
func (c *c09Case) usesCn() bool {
	as := c09AggrItems()
	for _, ai := range c.Aggrs {
		if strings.Contains(as[ai].text, "cn") {
			return true
		}
	}
	return false
}

// c09AliasAggr: aggregate items whose argument is the name of a grouping
// expression (index into c09GroupExprs): used only in statements that group by it.
var c09AliasAggr = map[string]int{"sum(l)": 3, "sum(kl) * 2": 6, "group_concat(u, ',')": 4, "group_concat(p, '')": 2, "min(f)": 7}

var c09Wheres = []struct {
	text string
	pred *ref.Expr
}{
	{"true", ref.Bl(true)},
	{"value != '2'", ref.Bin("!=", ref.Value(), ref.S("2"))},
	{"key != 'a'", ref.Bin("!=", ref.Key(), ref.S("a"))},
}

type c09Universe struct {
	name string
	keys []string
	vals []string
	dom  string // which numeric aggregates are defined on it: "", int, float
}

var c09Universes = []c09Universe{
	{"text", []string{"a", "ab", "abc", "b", "bc"}, []string{"bc", "c", "1"}, ""},
	{"int", []string{"a", "a1", "b", "b1"}, []string{"1", "2", "12", "-3"}, "int"},
	{"float", []string{"a", "a1", "b", "b1"}, []string{"0.5", "0.75", "2.5", "-0.5"}, "float"},
	// integers beyond 2^53: neighbours share one float64 image
	{"bigint", []string{"a", "a1", "b", "b1"}, []string{"9007199254740993", "9007199254740992", "9007199254740994", "-9007199254740993"}, "int"},
	// floats that agree in their first six decimals, and two that share one float32 image
	{"nearfloat", []string{"a", "a1", "b", "b1"}, []string{"0.12345671", "0.12345672", "0.1", "0.10000000001"}, "float"},
	// integers and floats side by side (only sum / avg / count of the raw values are defined on it)
	// (3 / 3.5 and -3 / -3.5 share their integer parts: an extreme taken on truncated values is wrong)
	{"mixed", []string{"a", "a1", "b", "b1"}, []string{"3", "3.5", "-3", "-3.5"}, "mixed"},
	// decimal text with leading zeros (read in base ten: 010 is ten, 08 is eight)
	{"zeros", []string{"a", "a1", "b", "b1"}, []string{"010", "08", "007", "20"}, "mixed"},
	// empty values and (through substr) empty group values: ('', 'b') and ('b', '') are different tuples
	{"empties", []string{"a", "ab", "b", "bc"}, []string{"", "b", "c"}, ""},
}

func c09Stores(u c09Universe, maxPairs int) [][]store.Pair {
	var out [][]store.Pair
	n := len(u.vals) + 1
	total := 1
	for range u.keys {
		total *= n
	}
	for code := 0; code < total; code++ {
		var ps []store.Pair
		x := code
		for _, k := range u.keys {
			d := x % n
			x /= n
			if d > 0 {
				ps = append(ps, store.Pair{K: k, V: u.vals[d-1]})
			}
		}
		if len(ps) <= maxPairs {
			out = append(out, ps)
		}
	}
	return out
}

func (c *c09Case) query() string {
	gs := c09GroupExprs()
	as := c09AggrItems()
	var fields, names []string
	for _, gi := range c.Groups {
		g := gs[gi]
		f := g.e.RenderStyle(ref.Style{})
		if g.as != "" {
			f += " as " + g.as
		}
		if !c.Hide {
			fields = append(fields, f)
		}
		names = append(names, g.name)
		if c.DupName {
			fields = append(fields, g.name+" as gg")
			names = []string{"gg", "gg"}
		}
	}
	for _, ai := range c.Aggrs {
		fields = append(fields, as[ai].text)
	}
	if c.usesCn() {
		fields = append(fields, "count(1) as cn")
	}
	q := "select " + strings.Join(fields, ", ") + " where " + c09Wheres[c.Where].text
	if len(names) > 0 {
		q += " group by " + strings.Join(names, ", ")
	}
	if len(c.Lim) == 2 {
		q += fmt.Sprintf(" limit %d, %d", c.Lim[0], c.Lim[1])
	}
	return q
}

func (c *c09Case) text() string {
	return fmt.Sprintf("%s | mode=%s B=%d store=%s", c.query(), c.Mode, c.B, store.CanonPairs(c.Store))
}

type c09 struct{}

func init() { core.Register(c09{}) }

func (c09) Info() core.Info {
	return core.Info{
		ID:    "C09",
		Title: "GROUP BY partitions by value tuples and aggregates equal their definitions",
		Level: "exploration",
		Rule: "statements = every choice of 0..2 (thorough: 3) grouping expressions from {key, value, substr(key,0,1), strlen(value), upper(value), is_int(value), strlen(key)} x every aggregate item (count, sum/min/max/avg over int(value) and float(value), group_concat, json_arrayagg, and arithmetic around aggregates) x WHERE {true, value filter, key filter}; stores = all stores of <= 4 pairs over three universes (text keys/values containing ('a','bc')/('ab','c') so that concatenated group values collide; integer and float valued ones with ('a','12')/('a1','2')) ; row and batch at B in {1,2,32}. " +
			"Further universes: integers beyond 2^53, floats that agree in six decimals, integers and floats side by side (3, 3.5, -3, -3.5: sum, avg, min, max of the raw values), decimal text with leading zeros, empty values; aggregates over the name of a grouping expression, over a trailing `count(1) as cn` named before it is defined, `E as g, g as gg ... group by gg, gg`, groups that are not selected. Quick tier: pairs of grouping expressions on stores of <= 3 pairs, in two configurations, with every second aggregate item. " +
			"Oracle: an independent fold over the reference rows: one row per distinct tuple in order of first pair, each aggregate per its README definition over that group's pairs in scan order, arithmetic per group, group columns compared by content. Non-trivial: >= 2 groups or a group with >= 2 pairs. Distinct: (statement, store, mode, B)." +
			" Also: limit 0,1 / 1,1 / 0,2 behind GROUP BY without ORDER BY (that window of the groups in first-appearance order, each folded over all of its pairs); float group values sharing one float32 image.",
		Assumptions: []string{"quantile is excluded (approximate sketch; not listed by the property)", "aggregate arguments are all-integer or all-float per statement, except on the universes made for mixed kinds", "json_arrayagg is compared after parsing both sides as JSON", "group columns are compared by content modulo representation (the engine renders them as text)"},
	}
}

type c09Unit struct {
	groups []int
	uni    int
}

func c09Units(t core.Tier) []c09Unit {
	var gsets [][]int
	n := len(c09GroupExprs())
	gsets = append(gsets, nil)
	for i := 0; i < n; i++ {
		gsets = append(gsets, []int{i})
		for j := 0; j < n; j++ {
			if j != i {
				gsets = append(gsets, []int{i, j})
				if t == core.Thorough {
					for k := j + 1; k < n; k++ {
						if k != i {
							gsets = append(gsets, []int{i, j, k})
						}
					}
				}
			}
		}
	}
	var us []c09Unit
	for _, g := range gsets {
		nf := 0
		for _, gi := range g {
			if c09FloatGroup(gi) {
				nf++
			}
		}
		ne := 0
		for _, gi := range g {
			if c09EmptyGroup(gi) {
				ne++
			}
		}
		for u := range c09Universes {
			if n := c09Universes[u].name; (n == "mixed" || n == "bigint" || n == "nearfloat" || n == "zeros") && len(g) > 1 {
				continue // (the universes made for one accumulator each: at most one grouping expression)
			}
			if ne > 0 || c09Universes[u].name == "empties" {
				// the possibly-empty expression only on the universe with empty
				// values, and that universe only with it, value, upper(value) and key
				ok := ne > 0 && c09Universes[u].name == "empties"
				for _, gi := range g {
					if !c09EmptyGroup(gi) && gi != 0 && gi != 1 && gi != 4 {
						ok = false
					}
				}
				if !ok {
					continue
				}
			}
			if nf > 0 {
				// float-valued grouping only where values are floats; alone or
				// together with the key's first byte / the is_int flag
				ok := c09Universes[u].dom == "float" && nf == 1
				for _, gi := range g {
					if !c09FloatGroup(gi) && gi != 2 && gi != 5 {
						ok = false
					}
				}
				if !ok {
					continue
				}
			}
			us = append(us, c09Unit{g, u})
		}
	}
	return us
}

func (c09) Units(t core.Tier) int { return len(c09Units(t)) }

func (c09) RunUnit(t core.Tier, u int, r *core.Reporter) {
	un := c09Units(t)[u]
	uni := c09Universes[un.uni]
	aggrs := c09AggrItems()
	maxPairs := 4
	cfgs := []struct {
		mode string
		b    int
	}{{drv.Row, 32}, {drv.Batch, 1}, {drv.Batch, 2}, {drv.Batch, 32}}
	if t == core.Quick && len(un.groups) >= 2 {
		// quick tier: two grouping expressions on stores of <= 3 pairs, two configurations
		maxPairs = 3
		cfgs = cfgs[:3:3]
		cfgs = append(cfgs[:1], cfgs[2])
	}
	stores := c09Stores(uni, maxPairs)
	hideable := len(un.groups) > 0
	for _, gi := range un.groups {
		if gi != 0 && gi != 1 {
			hideable = false // only key / value can be grouped by without being selected
		}
	}
	gsum := 0
	for _, gi := range un.groups {
		gsum += gi
	}
	for ai, a := range aggrs {
		if a.dom != "" && a.dom != uni.dom {
			continue
		}
		if t == core.Quick && len(un.groups) >= 2 && (ai+gsum)%2 == 1 {
			continue // quick tier: each pair of grouping expressions with every second aggregate item
		}
		if strings.Contains(a.text, "cn") && (len(un.groups) > 1 || t == core.Quick && len(un.groups) == 1 && un.groups[0] > 3) {
			continue // (forward references: without grouping and with one grouping expression)
		}
		if t == core.Quick && len(un.groups) > 1 && (strings.Contains(a.text, "sum(strlen(key))") || strings.Contains(a.text, "max(strlen(key)) * 100") || strings.Contains(a.text, "+ '/' +")) {
			continue // (quick tier: several differently fed aggregates in one field, with at most one grouping expression)
		}
		if need, ok := c09AliasAggr[a.text]; ok {
			has := false
			for _, gi := range un.groups {
				has = has || gi == need
			}
			if !has {
				continue
			}
		}
		// pair the aggregate with count(1) in half of the statements (two aggregate fields)
		for _, as := range [][]int{{ai}, {0, ai}} {
			if ai == 0 && len(as) == 2 {
				continue
			}
			if t == core.Quick && len(as) == 2 && (ai+gsum)%3 != 0 {
				continue // quick tier: a third of the aggregate items also next to count(1)
			}
			for wi := range c09Wheres {
				if len(as) == 2 && wi == 2 {
					continue
				}
				for si, ps := range stores {
					for ci, cfg := range cfgs {
						if len(as) == 2 && (si+ci)%2 == 1 {
							continue // two-aggregate statements: half of the (store, config) grid
						}
						if t == core.Quick && len(ps) == 4 && (wi == 2 || cfg.b == 32 && cfg.mode == drv.Batch) && (si+ci+wi)%2 == 1 {
							continue // quick tier: on the 4-pair stores, half of the third filter / large-batch grid
						}
						c := c09Case{Groups: un.groups, Aggrs: as, Where: wi, Uni: uni.name, Store: ps, Mode: cfg.mode, B: cfg.b}
						c09RunCase(r, &c)
						if len(un.groups) == 1 && gsAlias(un.groups[0]) && len(as) == 1 && wi == 0 && ai < 3 {
							d := c
							d.DupName = true
							c09RunCase(r, &d)
						}
						if len(un.groups) == 1 && len(as) == 1 && wi == 0 && (ai < 4 || ai%5 == 0) && (t == core.Thorough || ai < 2 && ci%2 == 0) {
							// a window of the groups: those in it are still folded over all of their pairs
							for _, lim := range [][]int{{0, 1}, {1, 1}, {0, 2}} {
								l := c
								l.Lim = lim
								c09RunCase(r, &l)
							}
						}
						if hideable && (si+ci)%2 == 0 {
							h := c
							h.Hide = true
							c09RunCase(r, &h)
						}
					}
				}
			}
		}
	}
}

// contentOf strips the representation from a canonical column.
func contentOf(canon string) string {
	switch {
	case strings.HasPrefix(canon, "T:"):
		if s, err := strconv.Unquote(canon[2:]); err == nil {
			return s
		}
	case strings.HasPrefix(canon, "I:"), strings.HasPrefix(canon, "B:"), strings.HasPrefix(canon, "F:"):
		return canon[2:]
	}
	return canon
}

func c09Judge(c *c09Case) (f *core.Failure, nontrivial bool, status, observed string) {
	mk := func(sig, exp, obs string) *core.Failure {
		return &core.Failure{Property: "C09", Leg: "aggregate-vs-fold", Sig: sig, Case: c.text(), Data: core.MustJSON(c), Expected: exp, Observed: obs}
	}
	gs := c09GroupExprs()
	as := c09AggrItems()
	// reference fold
	sel, err := refSelect(c09Wheres[c.Where].pred, st0(c.Store), nil)
	if err != nil {
		return nil, false, "out-of-domain", "ood"
	}
	type grp struct {
		tuple []string
		pairs []store.Pair
	}
	var groups []*grp
	idx := map[string]*grp{}
	for _, p := range sel {
		var tuple []string
		for _, gi := range c.Groups {
			v, err := ref.Eval(gs[gi].e, &ref.Env{Key: p.K, Value: p.V})
			if err != nil {
				return nil, false, "out-of-domain", "ood"
			}
			if v.K == 'F' {
				// a float group value is compared as a number, whatever its rendering
				tuple = append(tuple, "F:"+strconv.FormatFloat(v.F, 'g', -1, 64))
			} else {
				tuple = append(tuple, contentOf(v.Canon()))
			}
		}
		k := strings.Join(tuple, "\x00") + fmt.Sprint(len(tuple))
		for i, s := range tuple {
			k += fmt.Sprintf("|%d:%d", i, len(s))
		}
		g, ok := idx[k]
		if !ok {
			g = &grp{tuple: tuple}
			idx[k] = g
			groups = append(groups, g)
		}
		g.pairs = append(g.pairs, p)
	}
	var want [][]string // per row: contents of group cols then canonical aggregates
	for _, g := range groups {
		row := append([]string(nil), g.tuple...)
		for _, ai := range c.Aggrs {
			v, ok := as[ai].eval(g.pairs)
			if !ok {
				return nil, false, "out-of-domain", "ood"
			}
			row = append(row, v.Canon())
		}
		want = append(want, row)
	}
	if len(c.Lim) == 2 {
		lo, hi := c.Lim[0], c.Lim[0]+c.Lim[1]
		if lo > len(groups) {
			lo = len(groups)
		}
		if hi > len(groups) {
			hi = len(groups)
		}
		groups, want = groups[lo:hi], want[lo:hi]
	}
	nontrivial = len(groups) >= 2
	for _, g := range groups {
		if len(g.pairs) >= 2 {
			nontrivial = true
		}
	}
	st := store.New(c.Store)
	st.NoLog = true
	out := drv.Run(c.query(), st, drv.Opt{Mode: c.Mode, B: c.B, KeepRaw: true})
	if out.BuildErr != nil && out.Panic == "" {
		// every generated statement is a well-formed aggregate statement over
		// values its conversions accept: it has rows, so it cannot be refused
		return mk("aggregate-statement-rejected", "rows of the statement", "rejected: "+strings.ReplaceAll(out.BuildErr.Error(), "\n", " ")), nontrivial, "", "rejected"
	}
	observed = out.Status() + strings.Join(out.Rows, ";")
	wantStr := func() string {
		var rows []string
		for _, r := range want {
			rows = append(rows, strings.Join(r, " | "))
		}
		return fmt.Sprintf("%d rows (group columns by content): [%s]", len(want), strings.Join(rows, " ; "))
	}
	if out.Failed() {
		return mk(out.Status(), wantStr(), out.Describe()), nontrivial, "", observed
	}
	if len(out.Raw) != len(want) {
		sig := "too-few-groups"
		if len(out.Raw) > len(want) {
			sig = "too-many-groups"
		}
		return mk(sig, wantStr(), out.Describe()), nontrivial, "", observed
	}
	ng := len(c.Groups)
	if c.DupName {
		// two group columns showing the same value
		ng = 2
		for i := range want {
			want[i] = append([]string{want[i][0]}, want[i]...)
		}
	}
	if c.Hide {
		ng = 0
		for i := range want {
			want[i] = want[i][len(c.Groups):]
		}
	}
	for i, row := range out.Raw {
		if c.usesCn() && len(row) == ng+len(c.Aggrs)+1 {
			// the trailing count(1) as cn: the number of pairs of the group
			if got, exp := ref.Canon(row[len(row)-1]), ref.I(int64(len(groups[i].pairs))).Canon(); got != exp {
				return mk("wrong-aggregate-value", wantStr()+" and a last column cn = "+exp, out.Describe()), nontrivial, "", observed
			}
			row = row[:len(row)-1]
		}
		if len(row) != ng+len(c.Aggrs) {
			return mk("column-count", wantStr(), out.Describe()), nontrivial, "", observed
		}
		for j := 0; j < ng; j++ {
			got := contentOf(ref.Canon(row[j]))
			if strings.HasPrefix(want[i][j], "F:") {
				if fv, err := strconv.ParseFloat(got, 64); err == nil {
					got = "F:" + strconv.FormatFloat(fv, 'g', -1, 64)
				}
			}
			if got != want[i][j] {
				return mk("wrong-group-value", wantStr(), out.Describe()), nontrivial, "", observed
			}
		}
		for j, ai := range c.Aggrs {
			got := ref.Canon(row[ng+j])
			exp := want[i][ng+j]
			if strings.HasPrefix(as[ai].text, "json_arrayagg") {
				// compare after parsing the engine's text as JSON
				s, ok := row[ng+j].(string)
				if !ok {
					return mk("wrong-aggregate-kind", wantStr(), out.Describe()), nontrivial, "", observed
				}
				var arr []any
				if err := json.Unmarshal([]byte(s), &arr); err != nil {
					return mk("json_arrayagg-not-json", wantStr(), out.Describe()), nontrivial, "", observed
				}
				got = ref.Canon(arr)
			}
			if got != exp {
				sig := "wrong-aggregate-value"
				if contentOf(got) == contentOf(exp) {
					sig = "wrong-aggregate-kind"
				}
				return mk(sig, wantStr(), out.Describe()), nontrivial, "", observed
			}
		}
	}
	return nil, nontrivial, "ok", observed
}

func c09RunCase(r *core.Reporter, c *c09Case) {
	if !r.Begin(func() *core.Failure {
		return &core.Failure{Property: "C09", Leg: "aggregate-vs-fold", Case: c.text(), Data: core.MustJSON(c)}
	}) {
		return
	}
	f, nontrivial, status, obs := c09Judge(c)
	r.Evals(1)
	if f != nil {
		status = "violation:" + f.Sig
		r.Fail(*f)
	}
	r.Case(c.text(), nontrivial, status)
	r.Observed(obs)
}

func (c09) Replay(data json.RawMessage) *core.Failure {
	var c c09Case
	if err := json.Unmarshal(data, &c); err != nil {
		return nil
	}
	f, _, _, _ := c09Judge(&c)
	return f
}

func (c09) Simplify(data json.RawMessage) []json.RawMessage {
	var c c09Case
	if err := json.Unmarshal(data, &c); err != nil {
		return nil
	}
	var out []json.RawMessage
	for _, ps := range dropOnePair(c.Store) {
		d := c
		d.Store = ps
		out = append(out, core.MustJSON(d))
	}
	if len(c.Groups) > 1 {
		for i := range c.Groups {
			d := c
			d.Groups = append(append([]int(nil), c.Groups[:i]...), c.Groups[i+1:]...)
			out = append(out, core.MustJSON(d))
		}
	}
	if len(c.Aggrs) > 1 {
		for i := range c.Aggrs {
			d := c
			d.Aggrs = append(append([]int(nil), c.Aggrs[:i]...), c.Aggrs[i+1:]...)
			out = append(out, core.MustJSON(d))
		}
	}
	if c.Where != 0 {
		d := c
		d.Where = 0
		out = append(out, core.MustJSON(d))
	}
	if c.Mode == drv.Batch {
		d := c
		d.Mode, d.B = drv.Row, 32
		out = append(out, core.MustJSON(d))
	}
	return out
}
