package checks

import (
	"bytes"
	"encoding/json"
	"fmt"
	"sort"
	"strings"
	"sync"

	"github.com/c4pt0r/kvql"

	"verif/mc/core"
	"verif/mc/drv"
	"verif/mc/ref"
	"verif/mc/store"
)

// C02 — scan narrowing never loses a row: every access path covers the filter.

type c02 struct{}

func init() { core.Register(c02{}) }

func (c02) Info() core.Info {
	return core.Info{
		ID:    "C02",
		Title: "Scan narrowing never loses a row",
		Level: "exploration",
		Rule: "all predicate trees of depth <= 2 (quick) / 3 (thorough, reduced pool) over key-constraining atoms (key op l and l op key for = != ^= > >= < <=, IN lists of 1..2 (3) literals, BETWEEN) and opaque atoms (value = 'x', true, false), literals from {'',a,ab,b,c}, connectives & | and or !; executed on stores over a key universe of all strings of length 0..3 over {0,a,b,c,z} (the empty key included), which the check proves (at run time) realises every order/prefix relation vector a key can have to the literal pool. " +
			"Oracles: (a) rows of the optimised plan == pairs accepted by FilterExec.Filter of the un-optimised parse, in key order, row and batch mode; (b) region of the chosen scan node ⊇ satisfying keys; (c) `delete where P` leaves prior − satisfying keys. Non-trivial: access path narrower than a full scan and predicate satisfiable on the store. Distinct: (predicate text, store)." +
			" Family rr3: every and/or tree (both shapes, four operator pairs) of three atoms from the 40 half-bounded ranges, BETWEENs, points and prefixes over the ordered literals {'',a,b,c}, on a 12-key store holding the empty key (quick: row mode; thorough: all configurations and DELETE).",
		Assumptions: []string{
			"the un-optimised per-pair filter (FilterExec.Filter) is the yardstick here; its own semantics are C01's subject",
			"key universe adequacy is checked, not assumed: relation vectors (<,=,>, has-prefix, is-prefix-of) of all strings up to length 4 over a 7-symbol super-alphabet are all realised in the universe",
		},
		CrashIsViolation: true,
	}
}

var c02Lits = []string{"", "a", "ab", "b", "c"}

var (
	c02Once     sync.Once
	c02Universe []string
	c02Adequacy string
	c02Vectors  int
)

func relVector(k string, lits []string) string {
	var b strings.Builder
	for _, l := range lits {
		c := bytes.Compare([]byte(k), []byte(l))
		b.WriteByte("<=>"[c+1])
		if strings.HasPrefix(k, l) {
			b.WriteByte('p')
		} else {
			b.WriteByte('-')
		}
		if strings.HasPrefix(l, k) {
			b.WriteByte('q')
		} else {
			b.WriteByte('-')
		}
	}
	return b.String()
}

func allStrings(alpha string, minLen, maxLen int) []string {
	var out []string
	var rec func(cur string)
	rec = func(cur string) {
		if len(cur) >= minLen {
			out = append(out, cur)
		}
		if len(cur) == maxLen {
			return
		}
		for i := 0; i < len(alpha); i++ {
			rec(cur + string(alpha[i]))
		}
	}
	rec("")
	return out
}

func c02Init() {
	c02Once.Do(func() {
		c02Universe = allStrings("0abcz", 0, 3)
		sort.Strings(c02Universe)
		have := map[string]bool{}
		for _, k := range c02Universe {
			have[relVector(k, litsLt)] = true
		}
		c02Vectors = len(have)
		for _, k := range allStrings("!0abcz~", 0, 4) {
			if !have[relVector(k, litsLt)] {
				c02Adequacy = "key " + k + " has a relation vector not realised in the universe"
				return
			}
		}
	})
}

func c02Stores() [][]store.Pair {
	c02Init()
	mk := func(f func(i int) (bool, string)) []store.Pair {
		var ps []store.Pair
		for i, k := range c02Universe {
			if ok, v := f(i); ok {
				ps = append(ps, store.Pair{K: k, V: v})
			}
		}
		return ps
	}
	return [][]store.Pair{
		mk(func(i int) (bool, string) { return true, "x" }),
		mk(func(i int) (bool, string) { return true, []string{"x", "y"}[i%2] }),
		mk(func(i int) (bool, string) { return i%2 == 0, "x" }),
		mk(func(i int) (bool, string) { return i%2 == 1, []string{"x", "y"}[(i/2)%2] }),
		mk(func(i int) (bool, string) { return true, "y" }),
		// values that equal their key (every third pair) or another stored key
		mk(func(i int) (bool, string) {
			switch i % 3 {
			case 0:
				return true, c02Universe[i]
			case 1:
				return true, c02Universe[(i+7)%len(c02Universe)]
			}
			return true, "zz"
		}),
	}
}

var c02AtomsCache []*ref.Expr

func c02Atoms(t core.Tier) []*ref.Expr {
	if c02AtomsCache != nil {
		return c02AtomsCache
	}
	var a []*ref.Expr
	a = append(a, fieldCmpAtoms([]*ref.Expr{ref.Key()}, c02Lits)...)
	a = append(a, inAtoms(ref.Key(), c02Lits, 2)...)
	a = append(a, betweenAtoms(ref.Key(), c02Lits)...)
	a = append(a, ref.Bin("=", ref.Value(), ref.S("x")), ref.Bl(true), ref.Bl(false))
	// key-constraining operators with an operand that is NOT a literal (or only
	// becomes one by folding): a region may be inferred from the literals alone
	// only if that loses nothing
	k, v, s := ref.Key, ref.Value, ref.S
	a = append(a,
		ref.In(k(), v(), s("b")), ref.In(k(), s("b"), v()), ref.In(k(), s("a"), v(), s("ab")), ref.In(k(), ref.Call("lower", v()), s("c")),
		ref.Bin("=", k(), v()), ref.Bin("=", v(), k()), ref.Bin("^=", k(), v()), ref.Bin(">=", k(), v()), ref.Bin("<", k(), v()),
		ref.Btw(k(), s("a"), v()), ref.Btw(k(), v(), s("zzzz")),
		ref.Bin("=", k(), ref.Bin("+", s("a"), s("b"))), ref.Bin("^=", k(), ref.Call("lower", s("AB"))), ref.In(k(), ref.Bin("+", s("a"), s("b")), s("c")),
	)
	c02AtomsCache = a
	return a
}

func c02SmallAtoms() []*ref.Expr {
	k := ref.Key
	return []*ref.Expr{
		ref.Bin("=", k(), ref.S("ab")), ref.Bin("=", ref.S("b"), k()), ref.Bin("!=", k(), ref.S("a")),
		ref.Bin("^=", k(), ref.S("a")), ref.Bin("^=", k(), ref.S("ab")), ref.Bin("^=", k(), ref.S("b")), ref.Bin("^=", ref.S("ab"), k()), ref.Bin("^=", k(), ref.S("")),
		ref.Bin(">", k(), ref.S("a")), ref.Bin(">", k(), ref.S("ab")), ref.Bin(">=", k(), ref.S("b")), ref.Bin(">=", k(), ref.S("")),
		ref.Bin("<", k(), ref.S("b")), ref.Bin("<=", k(), ref.S("ab")), ref.Bin("<", k(), ref.S("a")), ref.Bin("<=", k(), ref.S("c")),
		ref.Bin(">", ref.S("b"), k()), ref.Bin("<=", ref.S("ab"), k()), ref.Bin("<", ref.S("a"), k()),
		ref.In(k(), ref.S("a"), ref.S("b")), ref.In(k(), ref.S("ab")), ref.In(k(), ref.S("c"), ref.S("ab"), ref.S("a")), ref.In(k(), ref.S("b"), ref.S("b")),
		ref.Btw(k(), ref.S("a"), ref.S("b")), ref.Btw(k(), ref.S("ab"), ref.S("c")), ref.Btw(k(), ref.S(""), ref.S("ab")), ref.Btw(k(), ref.S("b"), ref.S("c")),
		ref.Bin("=", ref.Value(), ref.S("x")), ref.Bl(true), ref.Bl(false),
	}
}

// c02RangeAtoms: every half-bounded range, the BETWEENs, the points and the
// prefixes over four ordered literals (the empty one among them). Three of
// them under every and/or tree (family rr3) reach the union / intersection
// helpers with every relative position of their bounds, an empty bound next to
// a missing one and a contradictory pair of bounds included.
func c02RangeAtoms() []*ref.Expr {
	k, sx := ref.Key, ref.S
	lits := []string{"", "a", "b", "c"}
	var a []*ref.Expr
	for _, op := range []string{">", ">=", "<", "<="} {
		for _, l := range lits {
			a = append(a, ref.Bin(op, k(), sx(l)))
		}
	}
	a = append(a, ref.Bin("<=", sx("b"), k()), ref.Bin(">", sx("b"), k()))
	for _, lo := range lits {
		for _, hi := range lits {
			if lo <= hi {
				a = append(a, ref.Btw(k(), sx(lo), sx(hi)))
			}
		}
	}
	for _, l := range lits {
		a = append(a, ref.Bin("=", k(), sx(l)))
	}
	a = append(a, ref.Bin("^=", k(), sx("")), ref.Bin("^=", k(), sx("a")), ref.Bin("^=", k(), sx("b")), ref.In(k(), sx("a"), sx("c")))
	return a
}

var c02RangeStore = []store.Pair{{K: "", V: "x"}, {K: "0", V: "y"}, {K: "a", V: "x"}, {K: "a0", V: "y"}, {K: "ab", V: "x"}, {K: "az", V: "y"}, {K: "b", V: "x"}, {K: "b0", V: "y"}, {K: "bz", V: "x"}, {K: "c", V: "y"}, {K: "c0", V: "x"}, {K: "z", V: "y"}}

type c02Unit struct {
	fam string
	i   int
}

func c02Units(t core.Tier) []c02Unit {
	var us []c02Unit
	n := len(c02Atoms(t))
	us = append(us, c02Unit{"d1", 0})
	for i := 0; i < n; i++ {
		us = append(us, c02Unit{"d2", i})
	}
	for i := range c02SmallAtoms() {
		us = append(us, c02Unit{"d2kw", i})
		if t == core.Thorough {
			us = append(us, c02Unit{"d3", i})
		}
	}
	if t == core.Thorough {
		us = append(us, c02Unit{"in3", 0})
	}
	for i := range c02RangeAtoms() {
		us = append(us, c02Unit{"rr3", i})
	}
	us = append(us, c02Unit{"inv", 0})
	us = append(us, c02Unit{"del3", 0})
	us = append(us, c02Unit{"orands", 0})
	return us
}

func (c02) Units(t core.Tier) int { return len(c02Units(t)) }

func (c02) RunUnit(t core.Tier, u int, r *core.Reporter) {
	c02Init()
	if c02Adequacy != "" {
		r.Fail(core.Failure{Property: "C02", Leg: "harness", Sig: "universe-not-adequate", Case: c02Adequacy})
		return
	}
	r.Max("max_relation_vectors_realised", int64(c02Vectors))
	r.Max("max_universe_keys", int64(len(c02Universe)))
	un := c02Units(t)[u]
	atoms := c02Atoms(t)
	small := c02SmallAtoms()
	stores := c02Stores()
	all := func(p *ref.Expr) {
		for _, st := range stores {
			c02Explore(r, p, st)
		}
	}
	two := func(p *ref.Expr) {
		c02Explore(r, p, stores[1])
		c02Explore(r, p, stores[3])
	}
	switch un.fam {
	case "d1":
		for _, a := range atoms {
			all(a)
			all(ref.Not(a))
		}
	case "d2":
		a := atoms[un.i]
		for _, b := range atoms {
			for _, op := range []string{"&", "|"} {
				p := ref.Bin(op, a.Clone(), b.Clone())
				two(p)
			}
		}
	case "d2kw":
		a := small[un.i]
		for _, b := range small {
			for _, op := range []string{"and", "or"} {
				two(ref.Bin(op, a.Clone(), b.Clone()))
			}
			two(ref.Not(ref.Bin("|", a.Clone(), b.Clone())))
			two(ref.Bin("&", ref.Not(a.Clone()), b.Clone()))
			two(ref.Bin("|", a.Clone(), ref.Not(b.Clone())))
		}
	case "d3":
		a := small[un.i]
		for _, b := range small {
			for _, c := range small {
				for _, o1 := range []string{"&", "|"} {
					for _, o2 := range []string{"&", "|"} {
						c02Explore(r, ref.Bin(o2, ref.Bin(o1, a.Clone(), b.Clone()), c.Clone()), stores[1])
						c02Explore(r, ref.Bin(o1, a.Clone(), ref.Bin(o2, b.Clone(), c.Clone())), stores[1])
					}
				}
				c02Explore(r, ref.Bin("&", ref.Not(ref.Bin("|", a.Clone(), b.Clone())), c.Clone()), stores[3])
			}
		}
	case "rr3":
		ra := c02RangeAtoms()
		a := ra[un.i]
		for _, b := range ra {
			for _, c := range ra {
				for _, o1 := range []string{"&", "|"} {
					for _, o2 := range []string{"&", "|"} {
						c02ExploreOpt(r, ref.Bin(o2, ref.Bin(o1, a.Clone(), b.Clone()), c.Clone()), c02RangeStore, t != core.Thorough)
						c02ExploreOpt(r, ref.Bin(o1, a.Clone(), ref.Bin(o2, b.Clone(), c.Clone())), c02RangeStore, t != core.Thorough)
					}
				}
			}
		}
	case "inv":
		// a BETWEEN with reversed bounds next to an alternative that decides the
		// row first: pair by pair (row mode short-circuit) the reversed atom is
		// never evaluated on the rows the alternative accepts, so the access
		// path must still reach those rows
		k, sx := ref.Key, ref.S
		invs := []*ref.Expr{ref.Btw(k(), sx("c"), sx("a")), ref.Btw(k(), sx("b"), sx("ab")), ref.Btw(k(), sx("ab"), sx("a")), ref.Btw(k(), sx("z"), sx(""))}
		keys := []string{"0", "a", "ab", "abc", "b", "bz", "c"}
		var sts [][]store.Pair
		for i, a := range keys {
			sts = append(sts, []store.Pair{{K: a, V: "x"}})
			for _, b := range keys[i+1:] {
				sts = append(sts, []store.Pair{{K: a, V: "x"}, {K: b, V: "y"}})
			}
		}
		for _, a := range small {
			for _, inv := range invs {
				for _, p := range []*ref.Expr{
					ref.Bin("|", a.Clone(), inv.Clone()), ref.Bin("or", a.Clone(), inv.Clone()),
					ref.Bin("|", a.Clone(), ref.Bin("&", inv.Clone(), ref.Bin("=", ref.Value(), sx("x")))),
					ref.Bin("&", ref.Bin("|", a.Clone(), inv.Clone()), ref.Bin("=", ref.Value(), sx("x"))),
					ref.Bin("|", ref.Bin("|", a.Clone(), inv.Clone()), ref.Bin("=", k(), sx("bz"))),
				} {
					for _, st := range sts {
						c02ExploreOpt(r, p, st, true)
					}
				}
			}
		}
	case "orands":
		// (key set & region) | (key set & region): two narrowed key lists side by
		// side, each the result of its own intersection
		k, sx := ref.Key, ref.S
		sets := []*ref.Expr{ref.In(k(), sx("a"), sx("ab"), sx("b")), ref.In(k(), sx("b"), sx("c"), sx("cz")), ref.Bin("=", k(), sx("ab")), ref.Bin("=", sx("c"), k())}
		regs := []*ref.Expr{ref.Bin(">", k(), sx("a")), ref.Bin(">=", k(), sx("b")), ref.Bin("<=", k(), sx("c")), ref.Bin("^=", k(), sx("a")), ref.Bin("^=", k(), sx("c")), ref.Btw(k(), sx("a"), sx("c"))}
		for _, s1 := range sets {
			for _, r1 := range regs {
				for _, s2 := range sets {
					for _, r2 := range regs {
						two(ref.Bin("|", ref.Bin("&", s1.Clone(), r1.Clone()), ref.Bin("&", s2.Clone(), r2.Clone())))
						two(ref.Bin("or", ref.Bin("and", r1.Clone(), s1.Clone()), ref.Bin("and", s2.Clone(), r2.Clone())))
					}
				}
				two(ref.Bin("|", ref.Bin("&", s1.Clone(), r1.Clone()), ref.Bin("|", ref.Bin("&", sets[1].Clone(), regs[1].Clone()), ref.Btw(k(), sx("ab"), sx("b")))))
			}
		}
	case "del3":
		// literal key sets under three-operand and/or trees with an opaque
		// conjunct at every position: DELETE may become a direct removal of
		// the key set only if no conjunct can reject a listed key
		k, v, sx := ref.Key, ref.Value, ref.S
		ks := []*ref.Expr{ref.Bin("=", k(), sx("a")), ref.Bin("=", k(), sx("ab")), ref.Bin("=", sx("b"), k()), ref.In(k(), sx("b"), sx("c")), ref.In(k(), sx("a"))}
		ops := []*ref.Expr{ref.Bin("=", v(), sx("x")), ref.Bin("!=", v(), sx("x")), ref.Bin("=", ref.Call("upper", k()), sx("A"))}
		for _, a := range ks {
			for _, b := range ks {
				for _, o := range ops {
					for _, and := range []string{"&", "and"} {
						for _, or := range []string{"|", "or"} {
							if (and == "&") != (or == "|") {
								continue
							}
							for _, p := range []*ref.Expr{
								ref.Bin(or, ref.Bin(and, a.Clone(), o.Clone()), b.Clone()),
								ref.Bin(or, b.Clone(), ref.Bin(and, a.Clone(), o.Clone())),
								ref.Bin(or, ref.Bin(and, o.Clone(), a.Clone()), b.Clone()),
								ref.Bin(and, ref.Bin(or, a.Clone(), b.Clone()), o.Clone()),
								ref.Bin(or, ref.Bin(or, ref.Bin(and, a.Clone(), o.Clone()), b.Clone()), ref.Bin("=", k(), sx("c"))),
								ref.Bin(or, ref.Bin(and, a.Clone(), ref.Bin(or, o.Clone(), b.Clone())), b.Clone()),
							} {
								two(p)
							}
						}
					}
				}
			}
		}
	case "in3":
		for _, a := range inAtoms(ref.Key(), litsLt, 3) {
			two(a)
			two(ref.Bin("&", a.Clone(), ref.Bin("^=", ref.Key(), ref.S("a"))))
			two(ref.Bin("|", a.Clone(), ref.Bin(">", ref.Key(), ref.S("b"))))
		}
	}
}

// scanRegion describes the access path of a built plan.
type scanRegion struct {
	Kind       string // EMPTY MGET PREFIX RANGE FULL REMOVE UNKNOWN
	Keys       []string
	Prefix     string
	Start, End []byte
}

func (s scanRegion) String() string {
	switch s.Kind {
	case "MGET", "REMOVE":
		return fmt.Sprintf("%s%q", s.Kind, s.Keys)
	case "PREFIX":
		return fmt.Sprintf("PREFIX(%q)", s.Prefix)
	case "RANGE":
		f := func(b []byte) string {
			if b == nil {
				return "nil"
			}
			return fmt.Sprintf("%q", b)
		}
		return fmt.Sprintf("RANGE[%s,%s]", f(s.Start), f(s.End))
	}
	return s.Kind
}

func (s scanRegion) contains(k string) bool {
	switch s.Kind {
	case "EMPTY":
		return false
	case "MGET", "REMOVE":
		for _, x := range s.Keys {
			if x == k {
				return true
			}
		}
		return false
	case "PREFIX":
		return strings.HasPrefix(k, s.Prefix)
	case "RANGE":
		if s.Start != nil && bytes.Compare([]byte(k), s.Start) < 0 {
			return false
		}
		if s.End != nil && bytes.Compare([]byte(k), s.End) > 0 {
			return false
		}
		return true
	}
	return true
}

func regionOfPlan(p any) scanRegion {
	switch v := p.(type) {
	case *kvql.ProjectionPlan:
		return regionOfPlan(v.ChildPlan)
	case *kvql.FinalLimitPlan:
		return regionOfPlan(v.ChildPlan)
	case *kvql.FinalOrderPlan:
		return regionOfPlan(v.ChildPlan)
	case *kvql.AggregatePlan:
		return regionOfPlan(v.ChildPlan)
	case *kvql.DeletePlan:
		return regionOfPlan(v.ChildPlan)
	case *kvql.LimitPlan:
		return regionOfPlan(v.ChildPlan)
	case *kvql.RemovePlan:
		r := scanRegion{Kind: "REMOVE"}
		for _, k := range v.Keys {
			if s, ok := k.(*kvql.StringExpr); ok {
				r.Keys = append(r.Keys, s.Data)
			} else {
				return scanRegion{Kind: "UNKNOWN"}
			}
		}
		return r
	case *kvql.EmptyResultPlan:
		return scanRegion{Kind: "EMPTY"}
	case *kvql.MultiGetPlan:
		return scanRegion{Kind: "MGET", Keys: append([]string(nil), v.Keys...)}
	case *kvql.PrefixScanPlan:
		return scanRegion{Kind: "PREFIX", Prefix: v.Prefix}
	case *kvql.RangeScanPlan:
		return scanRegion{Kind: "RANGE", Start: v.Start, End: v.End}
	case *kvql.FullScanPlan:
		return scanRegion{Kind: "FULL"}
	}
	return scanRegion{Kind: "UNKNOWN"}
}

// c02Filter evaluates the un-optimised filter pair by pair.
func c02Filter(q string, ps []store.Pair) (sat []store.Pair, err error, pan string) {
	defer func() {
		if r := recover(); r != nil {
			pan = fmt.Sprint(r)
		}
	}()
	stmt, perr := kvql.NewParser(q).Parse()
	if perr != nil {
		return nil, perr, ""
	}
	sel, ok := stmt.(*kvql.SelectStmt)
	if !ok {
		return nil, fmt.Errorf("not a select statement"), ""
	}
	fe := &kvql.FilterExec{Ast: sel.Where}
	ctx := kvql.NewExecuteCtx()
	for _, p := range ps {
		ctx.Clear()
		ok, ferr := fe.Filter(kvql.NewKVPStr(p.K, p.V), ctx)
		if ferr != nil {
			return nil, ferr, ""
		}
		if ok {
			sat = append(sat, p)
		}
	}
	return sat, nil, ""
}

var c02Configs = []struct {
	mode string
	b    int
}{{drv.Row, 32}, {drv.Batch, 2}, {drv.Batch, 32}}

func c02Explore(r *core.Reporter, pred *ref.Expr, ps []store.Pair) {
	c02ExploreOpt(r, pred, ps, false)
}

func c02ExploreOpt(r *core.Reporter, pred *ref.Expr, ps []store.Pair, rowOnly bool) {
	base := predCase{Pred: pred, Store: ps, RowOnly: rowOnly}
	id := base.query() + " | store#" + fmt.Sprint(len(ps), ":", ps[0].V, ps[len(ps)-1].V)
	if rowOnly {
		id = base.query() + " | " + store.CanonPairs(ps)
	}
	if !r.Begin(func() *core.Failure {
		c := base
		c.Mode, c.B = drv.Row, 32
		return &core.Failure{Property: "C02", Leg: "plan-vs-filter", Case: c.text(), Data: core.MustJSON(c)}
	}) {
		return
	}
	res := c02JudgeAll(&base)
	r.Evals(res.evals)
	for _, f := range res.fails {
		r.Fail(f)
	}
	r.Case(id, res.nontrivial, res.status)
	r.Observed(res.observed)
}

type c02Result struct {
	fails      []core.Failure
	evals      int
	nontrivial bool
	status     string
	observed   string
}

func c02JudgeAll(base *predCase) c02Result {
	var res c02Result
	res.status = "ok"
	ps := store.New(base.Store).Pairs()
	q := base.query()
	sat, ferr, pan := c02Filter(q, ps)
	res.evals++
	if pan != "" {
		c := *base
		c.Mode, c.B = drv.Row, 32
		res.fails = append(res.fails, core.Failure{Property: "C02", Leg: "plan-vs-filter", Sig: "filter-panic", Case: c.text(), Data: core.MustJSON(c), Expected: "filter evaluates", Observed: pan})
		res.status = "violation:filter-panic"
		return res
	}
	if ferr != nil {
		res.status = "rejected-or-filter-error"
		return res
	}
	wantRows := drv.PairsRows(sat)
	var region scanRegion
	for i, cfg := range c02Configs {
		if base.RowOnly && i > 0 {
			break
		}
		c := *base
		c.Mode, c.B = cfg.mode, cfg.b
		f, reg := c02Judge(&c, sat, wantRows)
		res.evals++
		region = reg
		if f != nil {
			res.fails = append(res.fails, *f)
			res.status = "violation:" + f.Sig
		}
	}
	// delete form (DeletePlan always consumes batches; two batch sizes)
	for _, b := range []int{2, 32} {
		if base.RowOnly {
			break // DELETE consumes its child in batches
		}
		c := *base
		c.Del, c.Mode, c.B = true, drv.Row, b
		if f := c02JudgeDelete(&c, sat); f != nil {
			res.fails = append(res.fails, *f)
			res.status = "violation:" + f.Sig
		}
		res.evals++
	}
	res.nontrivial = region.Kind != "FULL" && region.Kind != "UNKNOWN" && len(sat) > 0
	res.observed = region.String() + fmt.Sprint(len(sat))
	return res
}

func c02Judge(c *predCase, sat []store.Pair, wantRows []string) (*core.Failure, scanRegion) {
	st := store.New(c.Store)
	st.NoLog = true
	out := drv.Run(c.query(), st, drv.Opt{Mode: c.Mode, B: c.B})
	mk := func(leg, sig, exp, obs string) *core.Failure {
		return &core.Failure{Property: "C02", Leg: leg, Sig: sig, Case: c.text(), Data: core.MustJSON(c), Expected: exp, Observed: obs}
	}
	if out.Failed() {
		return mk("plan-vs-filter", out.Status(), "the optimised plan executes like the un-optimised filter (no error)", out.Describe()), scanRegion{Kind: "UNKNOWN"}
	}
	reg := regionOfPlan(out.Plan)
	var lost []string
	for _, p := range sat {
		if !reg.contains(p.K) {
			lost = append(lost, p.K)
		}
	}
	if len(lost) > 0 {
		return mk("region-covers-filter", "region-misses-keys", "access path covering the satisfying keys", fmt.Sprintf("access path %s does not contain satisfying keys %q", reg, lost)), reg
	}
	if !drv.EqualRows(out.Rows, wantRows) {
		return mk("plan-vs-filter", rowDiffSig(out.Rows, wantRows), fmt.Sprintf("%d rows %v (full scan filtered pair by pair)", len(wantRows), wantRows), fmt.Sprintf("access path %s: %s", reg, out.Describe())), reg
	}
	return nil, reg
}

func c02JudgeDelete(c *predCase, sat []store.Pair) *core.Failure {
	st := store.New(c.Store)
	st.NoLog = true
	out := drv.Run(c.query(), st, drv.Opt{Mode: c.Mode, B: c.B})
	mk := func(sig, exp, obs string) *core.Failure {
		return &core.Failure{Property: "C02", Leg: "delete-vs-filter", Sig: sig, Case: c.text(), Data: core.MustJSON(c), Expected: exp, Observed: obs}
	}
	if out.Failed() {
		return mk(out.Status(), "delete executes", out.Describe())
	}
	del := map[string]bool{}
	for _, p := range sat {
		del[p.K] = true
	}
	var want []store.Pair
	for _, p := range store.New(c.Store).Pairs() {
		if !del[p.K] {
			want = append(want, p)
		}
	}
	got := st.Pairs()
	if store.CanonPairs(got) != store.CanonPairs(want) {
		return mk("wrong-pairs-deleted", "prior minus the satisfying keys: "+keysOf(want), fmt.Sprintf("access path %s left keys: %s", regionOfPlan(out.Plan), keysOf(got)))
	}
	return nil
}

func keysOf(ps []store.Pair) string {
	ks := make([]string, len(ps))
	for i, p := range ps {
		ks[i] = p.K
	}
	return strings.Join(ks, ",")
}

func (c02) Replay(data json.RawMessage) *core.Failure {
	var c predCase
	if err := json.Unmarshal(data, &c); err != nil || c.Pred == nil {
		return nil
	}
	sel := c
	sel.Del = false
	sat, ferr, pan := c02Filter(sel.query(), store.New(c.Store).Pairs())
	if pan != "" {
		return &core.Failure{Property: "C02", Leg: "plan-vs-filter", Sig: "filter-panic", Case: c.text(), Data: data, Observed: pan}
	}
	if ferr != nil {
		return nil
	}
	if c.Del {
		return c02JudgeDelete(&c, sat)
	}
	f, _ := c02Judge(&c, sat, drv.PairsRows(sat))
	return f
}

func (c02) Simplify(data json.RawMessage) []json.RawMessage {
	var c predCase
	if err := json.Unmarshal(data, &c); err != nil || c.Pred == nil {
		return nil
	}
	return predSimplify(&c)
}
