package checks

import (
	"bytes"
	"encoding/json"
	"fmt"
	"sort"
	"strconv"
	"strings"

	"verif/mc/core"
	"verif/mc/drv"
	"verif/mc/ref"
	"verif/mc/store"
)

// C07 — ORDER BY returns a sorted permutation of the unordered result.

type c07Order struct {
	Name string `json:"name"`
	Col  int    `json:"col"`
	Desc bool   `json:"desc"`
	Dir  string `json:"dir"` // "", "asc", "desc" as written
}

type c07Case struct {
	Select string       `json:"select"` // statement without ORDER BY
	Orders []c07Order   `json:"orders"`
	Store  []store.Pair `json:"store"`
	Mode   string       `json:"mode"`
	B      int          `json:"b"`
	// NumText: columns declared as numbers that arrive as decimal text (numeric group keys)
	NumText []int `json:"num_text,omitempty"`
	// Warm: both statements are first polled Warm times (-1: to their end),
	// re-armed with Init() and only then executed for the comparison
	Warm int `json:"warmup,omitempty"`
}

// numTextCol converts the text of a numeric group key back to a number.
func (c *c07Case) numTextCol(col int, v any) any {
	for _, nc := range c.NumText {
		if nc == col {
			var s string
			switch t := v.(type) {
			case []byte:
				s = string(t)
			case string:
				s = t
			default:
				return v
			}
			if f, err := strconv.ParseFloat(s, 64); err == nil {
				return f
			}
		}
	}
	return v
}

// hasNaN: the store holds the text NaN, which float() reads as not-a-number.
func (c *c07Case) hasNaN() bool {
	for _, p := range c.Store {
		if p.V == "NaN" {
			return true
		}
	}
	return false
}

func (c *c07Case) orderClause() string {
	parts := make([]string, len(c.Orders))
	for i, o := range c.Orders {
		parts[i] = o.Name
		if o.Dir != "" {
			parts[i] += " " + o.Dir
		}
	}
	return " order by " + strings.Join(parts, ", ")
}

func (c *c07Case) query() string { return c.Select + c.orderClause() }

func (c *c07Case) warmText() string {
	if c.Warm == 0 {
		return ""
	}
	return fmt.Sprintf(" warmup=%d", c.Warm)
}

func (c *c07Case) text() string {
	return fmt.Sprintf("%s | mode=%s B=%d%s store=%s", c.query(), c.Mode, c.B, c.warmText(), store.CanonPairs(c.Store))
}

type c07 struct{}

func init() { core.Register(c07{}) }

func (c07) Info() core.Info {
	return core.Info{
		ID:    "C07",
		Title: "ORDER BY returns a sorted permutation of the unordered result",
		Level: "exploration",
		Rule: "select lists with key, value, aliased number / text / Boolean expressions (int, float, upper, is_int, a prefix test), fields defined through other fields, and aggregate lists (sum over int, float and mixed text, count, min) grouped by a key prefix; every sequence of 1..2 (fixed stores: 3) distinct order fields x every asc/desc/default combination; stores = all stores of <= 4 pairs over keys {a,ab,b,c} x values {1,2,10,1.5} (duplicates, ties, int/float mixes) plus text-valued, 7- and 70-pair stores; row and batch (B in {1,2,32}). " +
			"Oracle: the ordered rows are a permutation of the rows of the same statement without ORDER BY, every adjacent pair is non-decreasing under an independent comparator (lexicographic over the order fields; text byte-wise, numbers numerically across int/float, false < true, direction per field), and a lone `order by key asc` leaves the sequence unchanged; the same statement under `limit s, n` (three windows) returns that window of the sorted sequence (compared on the order columns, ties being interchangeable). Non-trivial: >= 2 rows and the ordered sequence differs from the unordered one. Distinct: (statement, store, mode, B)." +
			" Also: a field listed twice ahead of another one (27 direction triples per ordered pair, fixed stores); two select lists over values {2, NaN, 1, 3.5} judged on the rows whose order columns are all numbers; a len() order column (a Go int); on the fixed stores, for <= 2 order fields, both plans polled once / twice / to their end, re-armed with Init() and executed again.",
		Assumptions: []string{"columns whose two values are of different kinds other than int/float (text vs number) are not compared (no documented order)"},
	}
}

type c07Sel struct {
	sel   string
	names []string // orderable field names, with their column index
	cols  []int
	kind  string // num | text
	aggr  bool
}

func c07Sels() []c07Sel {
	return []c07Sel{
		{sel: "select key, value, int(value) as n, float(value) as f, upper(value) as u, is_float(value) as b, key ^= 'a' as p where true",
			names: []string{"key", "value", "n", "f", "u", "b", "p"}, cols: []int{0, 1, 2, 3, 4, 5, 6}, kind: "num"},
		{sel: "select key, value, upper(value) as u, is_int(value) as b, key ^= 'a' as p, strlen(value) as l, len(split(value, 'a')) as ln where true",
			names: []string{"key", "value", "u", "b", "p", "l", "ln"}, cols: []int{0, 1, 2, 3, 4, 5, 6}, kind: "text"},
		{sel: "select substr(key, 0, 1) as g, sum(int(value)) as s, count(1) as c, sum(float(value)) as sf, sum(value) as sv, min(value) as mv where true group by g",
			names: []string{"g", "s", "c", "sf", "sv", "mv"}, cols: []int{0, 1, 2, 3, 4, 5}, kind: "num", aggr: true},
		{sel: "select * where key != 'zz'", names: []string{"key", "value"}, cols: []int{0, 1}, kind: "text"},
		// a filter that rejects part of the scanned pairs: child batches of uneven sizes
		{sel: "select key, value, int(value) as n where value != '2' & key != 'ab'",
			names: []string{"key", "value", "n"}, cols: []int{0, 1, 2}, kind: "num"},
		// numeric group keys (they reach the order plan as decimal text): negative
		// numbers and floats whose integer parts differ in width
		{sel: "select int(value) as n, count(1) as c, sum(strlen(key)) as sk where true group by n",
			names: []string{"n", "c", "sk"}, cols: []int{0, 1, 2}, kind: "signed", aggr: true},
		{sel: "select float(value) as f, count(1) as c where true group by f",
			names: []string{"f", "c"}, cols: []int{0, 1}, kind: "signedf", aggr: true},
		// integers beyond 2^53 (neighbours share one float64 image), native and summed per group
		{sel: "select key, int(value) as n, int(value) + 1 as m where true",
			names: []string{"n", "m", "key"}, cols: []int{1, 2, 0}, kind: "bigint"},
		{sel: "select substr(key, 0, 1) as g, sum(int(value)) as s, max(int(value)) as mx where true group by g",
			names: []string{"s", "mx", "g"}, cols: []int{1, 2, 0}, kind: "bigint", aggr: true},
		// fields that are nothing but the name of another field
		{sel: "select key, value as v, v as w, int(value) as n, n as m, m as mm where true",
			names: []string{"w", "m", "mm", "v"}, cols: []int{2, 4, 5, 1}, kind: "num"},
		// Boolean group keys (they reach the order plan as the texts true / false,
		// which sort like the Booleans: false first)
		{sel: "select float(value) > 1.2 as b, is_int(value) as ii, count(1) as c, sum(strlen(key)) as sk where true group by b, ii",
			names: []string{"b", "ii", "c", "sk"}, cols: []int{0, 1, 2, 3}, kind: "num", aggr: true},
		// not-a-number among the numbers
		{sel: "select key, float(value) as f, float(value) * 2 as g, strlen(value) as l where true",
			names: []string{"f", "g", "key", "l"}, cols: []int{1, 2, 0, 3}, kind: "nan"},
		{sel: "select value as v, max(float(value)) as mx, count(1) as c where true group by v",
			names: []string{"mx", "c", "v"}, cols: []int{1, 2, 0}, kind: "nan", aggr: true},
		// fields defined through other fields: their type is known only once the names are resolved
		{sel: "select key, value as v, v + '!' as vx, strlen(v) as l, l * 2 - 1 as m where true",
			names: []string{"v", "vx", "l", "m"}, cols: []int{1, 2, 3, 4}, kind: "text"},
	}
}

var c07NumVals = []string{"1", "2", "10", "1.5"}
var c07TextVals = []string{"a", "B", "ab", "1"}

func c07SmallStores(vals []string) [][]store.Pair {
	keys := []string{"a", "ab", "b", "c"}
	var out [][]store.Pair
	n := len(vals) + 1
	total := 1
	for range keys {
		total *= n
	}
	for code := 0; code < total; code++ {
		var ps []store.Pair
		x := code
		for _, k := range keys {
			d := x % n
			x /= n
			if d > 0 {
				ps = append(ps, store.Pair{K: k, V: vals[d-1]})
			}
		}
		out = append(out, ps)
	}
	return out
}

func c07FixedStores(vals []string) [][]store.Pair {
	mk := func(n int) []store.Pair {
		ps := make([]store.Pair, n)
		for i := range ps {
			ps[i] = store.Pair{K: fmt.Sprintf("%c%02d", 'a'+i%3, i), V: vals[(i*7)%len(vals)]}
		}
		return ps
	}
	out := [][]store.Pair{mk(7), mk(70), mk(5)}
	if len(vals) > 4 {
		// (text values: also a store holding the empty key)
		out = append(out, append([]store.Pair{{K: "", V: vals[1]}}, mk(6)...))
	}
	return out
}

func c07OrderSpecs(s c07Sel, maxLen int) [][]c07Order {
	var out [][]c07Order
	dirs := []string{"", "asc", "desc"}
	var rec func(cur []c07Order, used int)
	rec = func(cur []c07Order, used int) {
		if len(cur) >= 1 {
			out = append(out, append([]c07Order(nil), cur...))
		}
		if len(cur) == maxLen {
			return
		}
		for i, nm := range s.names {
			if used&(1<<i) != 0 {
				continue
			}
			for _, d := range dirs {
				rec(append(cur, c07Order{Name: nm, Col: s.cols[i], Desc: d == "desc", Dir: d}), used|1<<i)
			}
		}
	}
	rec(nil, 0)
	if maxLen >= 3 {
		// a field listed twice ahead of another one: the repetition decides
		// nothing and the field behind it keeps its own direction
		for i, a := range s.names {
			for j, b := range s.names {
				if i == j {
					continue
				}
				for _, d1 := range dirs {
					for _, d2 := range dirs {
						for _, d3 := range dirs {
							out = append(out, []c07Order{{Name: a, Col: s.cols[i], Desc: d1 == "desc", Dir: d1}, {Name: a, Col: s.cols[i], Desc: d2 == "desc", Dir: d2}, {Name: b, Col: s.cols[j], Desc: d3 == "desc", Dir: d3}})
						}
					}
				}
			}
		}
	}
	return out
}

type c07Unit struct {
	sel   int
	part  int
	parts int
	fixed bool
}

func c07Units(t core.Tier) []c07Unit {
	var us []c07Unit
	for i, sl := range c07Sels() {
		for p := 0; p < 8; p++ {
			if t == core.Quick && sl.kind == "nan" {
				break // quick tier: the not-a-number selects on the fixed stores only
			}
			us = append(us, c07Unit{sel: i, part: p, parts: 8})
		}
		for p := 0; p < 4; p++ {
			us = append(us, c07Unit{sel: i, part: p, parts: 4, fixed: true})
		}
	}
	return us
}

func (c07) Units(t core.Tier) int { return len(c07Units(t)) }

func (c07) RunUnit(t core.Tier, u int, r *core.Reporter) {
	un := c07Units(t)[u]
	s := c07Sels()[un.sel]
	vals := c07NumVals
	switch s.kind {
	case "text":
		vals = c07TextVals
	case "signed":
		vals = []string{"-5", "-3", "-10", "4"}
	case "signedf":
		vals = []string{"-5", "-3.5", "100", "9.5"}
	case "nan":
		vals = []string{"2", "NaN", "1", "3.5"}
	case "bigint":
		vals = []string{"9007199254740993", "9007199254740992", "9007199254740994", "-9007199254740993"}
	}
	var stores [][]store.Pair
	maxLen := 2
	cfgs := []struct {
		mode string
		b    int
	}{{drv.Row, 32}, {drv.Batch, 2}}
	if un.fixed {
		fvals := vals
		if s.kind == "text" {
			// the fixed stores also hold the empty value, a value with a byte
			// above every letter and one that is a prefix of another
			fvals = append(append([]string(nil), vals...), "", "a\xff", "ab\x00")
		}
		stores = c07FixedStores(fvals)
		maxLen = 3
		cfgs = append(cfgs, struct {
			mode string
			b    int
		}{drv.Batch, 1}, struct {
			mode string
			b    int
		}{drv.Batch, 32})
	} else {
		stores = c07SmallStores(vals)
		if t == core.Thorough {
			maxLen = 3
			cfgs = append(cfgs, struct {
				mode string
				b    int
			}{drv.Batch, 1}, struct {
				mode string
				b    int
			}{drv.Batch, 3})
		}
	}
	specs := c07OrderSpecs(s, maxLen)
	for si, sp := range specs {
		if si%un.parts != un.part {
			continue
		}
		for _, ps := range stores {
			for _, cfg := range cfgs {
				c := c07Case{Select: s.sel, Orders: sp, Store: ps, Mode: cfg.mode, B: cfg.b}
				if s.kind == "signed" || s.kind == "signedf" {
					c.NumText = []int{0}
				}
				if !r.Begin(func() *core.Failure {
					return &core.Failure{Property: "C07", Leg: "sorted-permutation", Case: c.text(), Data: core.MustJSON(c)}
				}) {
					continue
				}
				f, nontrivial, status, obs := c07Judge(&c)
				r.Evals(2)
				if f != nil {
					status = "violation:" + f.Sig
					r.Fail(*f)
				}
				r.Case(c.text(), nontrivial, status)
				r.Observed(obs)
				if un.fixed && len(sp) <= 2 {
					// the same plans polled once / twice / to their end, re-armed
					// with Init() and executed again: a permutation, sorted
					for _, warm := range []int{1, 2, -1} {
						w := c
						w.Warm = warm
						if !r.Begin(func() *core.Failure {
							return &core.Failure{Property: "C07", Leg: "sorted-permutation", Case: w.text(), Data: core.MustJSON(w)}
						}) {
							continue
						}
						f, nontrivial, status, obs := c07Judge(&w)
						r.Evals(2)
						if f != nil {
							status = "violation:" + f.Sig
							r.Fail(*f)
						}
						r.Case(w.text(), nontrivial, status)
						r.Observed(obs)
					}
				}
			}
		}
	}
}

// cmpCol compares two engine columns under the documented order; ok=false
// when the pair has no documented order (different non-numeric kinds).
func cmpCol(a, b any) (int, bool) {
	num := func(x any) (float64, bool, bool) {
		switch v := x.(type) {
		case int:
			return float64(v), true, true
		case int64:
			return float64(v), true, true
		case int32:
			return float64(v), true, true
		case uint64:
			return float64(v), true, true
		case float64:
			return v, false, true
		case float32:
			return float64(v), false, true
		}
		return 0, false, false
	}
	txt := func(x any) ([]byte, bool) {
		switch v := x.(type) {
		case []byte:
			return v, true
		case string:
			return []byte(v), true
		}
		return nil, false
	}
	if x, _, ok := num(a); ok {
		if y, _, ok2 := num(b); ok2 {
			if ai, aok := a.(int64); aok {
				if bi, bok := b.(int64); bok {
					switch {
					case ai < bi:
						return -1, true
					case ai > bi:
						return 1, true
					}
					return 0, true
				}
			}
			switch {
			case x < y:
				return -1, true
			case x > y:
				return 1, true
			}
			return 0, true
		}
		return 0, false
	}
	if x, ok := txt(a); ok {
		if y, ok2 := txt(b); ok2 {
			return bytes.Compare(x, y), true
		}
		return 0, false
	}
	if x, ok := a.(bool); ok {
		if y, ok2 := b.(bool); ok2 {
			switch {
			case x == y:
				return 0, true
			case !x:
				return -1, true
			}
			return 1, true
		}
	}
	return 0, false
}

func c07Judge(c *c07Case) (f *core.Failure, nontrivial bool, status, observed string) {
	mk := func(sig, exp, obs string) *core.Failure {
		return &core.Failure{Property: "C07", Leg: "sorted-permutation", Sig: sig, Case: c.text(), Data: core.MustJSON(c), Expected: exp, Observed: obs}
	}
	s1 := store.New(c.Store)
	s1.NoLog = true
	base := drv.Run(c.Select, s1, drv.Opt{Mode: c.Mode, B: c.B, Warmup: c.Warm})
	if base.BuildErr != nil && base.Panic == "" {
		return nil, false, "rejected", "rejected"
	}
	if base.Panic != "" {
		return mk("panic", "rows or an error value", base.Describe()), false, "", base.Status()
	}
	if base.Failed() {
		return nil, false, "unordered-fails", base.Status()
	}
	s2 := store.New(c.Store)
	s2.NoLog = true
	ord := drv.Run(c.query(), s2, drv.Opt{Mode: c.Mode, B: c.B, KeepRaw: true, Warmup: c.Warm})
	if ord.BuildErr != nil && ord.Panic == "" {
		return nil, false, "rejected", "rejected"
	}
	observed = strings.Join(ord.Rows, ";")
	if ord.Failed() {
		return mk("ordered-"+ord.Status(), "the rows of the unordered statement, sorted: "+base.Describe(), ord.Describe()), len(base.Rows) >= 2, "", observed
	}
	x, y := append([]string(nil), base.Rows...), append([]string(nil), ord.Rows...)
	sort.Strings(x)
	sort.Strings(y)
	if !drv.EqualRows(x, y) {
		return mk("not-a-permutation", "a permutation of "+base.Describe(), ord.Describe()), len(base.Rows) >= 2, "", observed
	}
	status = "ok"
	// NaN (float('NaN')) has no place in the numeric order: the rows whose order
	// columns are all numbers must be in order among themselves, wherever the
	// NaN rows stand
	sorted, sortedRows := ord.Raw, ord.Rows
	if c.hasNaN() {
		sorted, sortedRows = nil, nil
		for i, row := range ord.Raw {
			nan := false
			for _, o := range c.Orders {
				if o.Col < len(row) {
					if v, ok := row[o.Col].(float64); ok && v != v {
						nan = true
					}
				}
			}
			if !nan {
				sorted, sortedRows = append(sorted, row), append(sortedRows, ord.Rows[i])
			}
		}
	}
	for i := 1; i < len(sorted); i++ {
		a, b := sorted[i-1], sorted[i]
		for _, o := range c.Orders {
			if o.Col >= len(a) || o.Col >= len(b) {
				return mk("missing-order-column", "order column present", sortedRows[i]), true, "", observed
			}
			cmp, ok := cmpCol(c.numTextCol(o.Col, a[o.Col]), c.numTextCol(o.Col, b[o.Col]))
			if !ok {
				status = "incomparable-kinds"
				break
			}
			if o.Desc {
				cmp = -cmp
			}
			if cmp < 0 {
				break
			}
			if cmp > 0 {
				return mk("not-sorted", fmt.Sprintf("row %d <= row %d under %s", i-1, i, c.orderClause()), fmt.Sprintf("row %d = %s ; row %d = %s ; all rows: %s", i-1, sortedRows[i-1], i, sortedRows[i], ord.Describe())), true, "", observed
			}
		}
	}
	if len(c.Orders) == 1 && strings.EqualFold(c.Orders[0].Name, "key") && !c.Orders[0].Desc && !strings.Contains(c.Select, "group by") {
		if !drv.EqualRows(base.Rows, ord.Rows) {
			return mk("key-asc-changed-order", base.Describe(), ord.Describe()), true, "", observed
		}
	}
	nontrivial = len(ord.Rows) >= 2 && !drv.EqualRows(base.Rows, ord.Rows)
	// ORDER BY under LIMIT: the window [s, s+n) of the sorted sequence. Rows that
	// tie on all order fields are interchangeable, so the window is compared on
	// the order columns, and every returned row must be a row of the result.
	if status == "ok" && len(ord.Rows) >= 3 && !c.hasNaN() && c.Warm == 0 {
		keyOf := func(raw []any) string {
			var b strings.Builder
			for _, o := range c.Orders {
				b.WriteString(ref.Canon(raw[o.Col]))
				b.WriteByte('|')
			}
			return b.String()
		}
		for _, lim := range [][2]int{{0, 2}, {1, 2}, {len(ord.Rows) - 1, 3}} {
			s3 := store.New(c.Store)
			s3.NoLog = true
			lq := fmt.Sprintf("%s limit %d, %d", c.query(), lim[0], lim[1])
			lo := drv.Run(lq, s3, drv.Opt{Mode: c.Mode, B: c.B, KeepRaw: true})
			lc := *c
			mkl := func(sig, exp, obs string) *core.Failure {
				return &core.Failure{Property: "C07", Leg: "sorted-permutation", Sig: sig, Case: lc.text() + fmt.Sprintf(" (with limit %d, %d)", lim[0], lim[1]), Data: core.MustJSON(lc), Expected: exp, Observed: obs}
			}
			if lo.Failed() {
				return mkl("limited-"+lo.Status(), "rows "+fmt.Sprint(lim)+" of "+ord.Describe(), lo.Describe()), nontrivial, "", observed
			}
			hi := lim[0] + lim[1]
			if hi > len(ord.Raw) {
				hi = len(ord.Raw)
			}
			want := ord.Raw[lim[0]:hi]
			bad := len(lo.Raw) != len(want)
			left := map[string]int{}
			for _, r := range ord.Rows {
				left[r]++
			}
			for i := 0; !bad && i < len(want); i++ {
				if keyOf(lo.Raw[i]) != keyOf(want[i]) || left[lo.Rows[i]] == 0 {
					bad = true
				}
				left[lo.Rows[i]]--
			}
			if bad {
				return mkl("limit-not-a-window-of-the-sorted-rows", fmt.Sprintf("rows [%d, %d) of %s", lim[0], lim[0]+lim[1], ord.Describe()), lo.Describe()), nontrivial, "", observed
			}
		}
	}
	return nil, nontrivial, status, observed
}

func (c07) Replay(data json.RawMessage) *core.Failure {
	var c c07Case
	if err := json.Unmarshal(data, &c); err != nil {
		return nil
	}
	f, _, _, _ := c07Judge(&c)
	return f
}

func (c07) Simplify(data json.RawMessage) []json.RawMessage {
	var c c07Case
	if err := json.Unmarshal(data, &c); err != nil {
		return nil
	}
	var out []json.RawMessage
	for _, ps := range dropOnePair(c.Store) {
		d := c
		d.Store = ps
		out = append(out, core.MustJSON(d))
	}
	if len(c.Orders) > 1 {
		for i := range c.Orders {
			d := c
			d.Orders = append(append([]c07Order(nil), c.Orders[:i]...), c.Orders[i+1:]...)
			out = append(out, core.MustJSON(d))
		}
	}
	if c.Mode == drv.Batch {
		d := c
		d.Mode, d.B = drv.Row, 32
		out = append(out, core.MustJSON(d))
	}
	return out
}

var _ = ref.Canon
