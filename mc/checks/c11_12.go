package checks

import (
	"errors"
	"encoding/json"
	"fmt"
	"sort"
	"strconv"
	"strings"
	"sync"

	"github.com/c4pt0r/kvql"

	"verif/mc/core"
	"verif/mc/drv"
	"verif/mc/ref"
	"verif/mc/store"
)

// C11 / C12 — explicit-state model checking of the write statements.
//
// State = contents of the store (canonical text). The reachable state space is
// enumerated by breadth-first search on the reference map from the empty store
// (shortest statement history kept per state); every transition (statement x
// batch size x drain/poll pattern) from every reachable state is then executed
// on the real plans over a clone of that state and compared with the model
// step. Because each statement builds a fresh plan and the storage has no
// hidden state, "all histories" reduces, by induction on history length, to
// "all transitions from all reachable states".

// wstmt is a write statement in structured form (the model needs the ASTs).
type wstmt struct {
	Kind  string         `json:"kind"` // put | remove | delete | select
	Pairs [][2]*ref.Expr `json:"pairs,omitempty"`
	Keys  []*ref.Expr    `json:"keys,omitempty"`
	Pred  *ref.Expr      `json:"pred,omitempty"`
	Lim   []int          `json:"limit,omitempty"` // nil | [n] | [s,n]
}

func (w *wstmt) text() string {
	switch w.Kind {
	case "put":
		parts := make([]string, len(w.Pairs))
		for i, p := range w.Pairs {
			parts[i] = "(" + p[0].RenderStyle(ref.Style{}) + ", " + p[1].RenderStyle(ref.Style{}) + ")"
		}
		return "put " + strings.Join(parts, ", ")
	case "remove":
		parts := make([]string, len(w.Keys))
		for i, k := range w.Keys {
			parts[i] = k.RenderStyle(ref.Style{})
		}
		return "remove " + strings.Join(parts, ", ")
	case "delete", "select":
		s := "delete where " + w.Pred.Render()
		if w.Kind == "select" {
			s = "select * where " + w.Pred.Render()
		}
		switch len(w.Lim) {
		case 1:
			s += fmt.Sprintf(" limit %d", w.Lim[0])
		case 2:
			s += fmt.Sprintf(" limit %d, %d", w.Lim[0], w.Lim[1])
		}
		return s
	}
	return "?"
}

func textOf(v ref.Val) (string, bool) {
	switch v.K {
	case 'T':
		return v.T, true
	case 'I':
		return strconv.FormatInt(v.I, 10), true
	case 'F':
		// keys and values are stored as text; a float is rendered the way
		// str() renders it (six decimals) by PUT and by REMOVE alike
		return strconv.FormatFloat(v.F, 'f', 6, 64), true
	}
	return "", false
}

// modelStep applies w to the pairs of a state. ok=false: evaluation is not
// defined by the reference (the engine is expected to fail, writing nothing).
// writes is the list of stated writes in order (puts: k,v ; removes: k).
// mustFail: a key or value expression of a PUT / REMOVE divides by zero or
// measures the distance of vectors of different lengths - evaluations that fail
// by definition (everything else the reference leaves undefined stays unjudged).
func mustFail(w *wstmt) string {
	reason := func(err error) string {
		var d *ref.ErrDomain
		if errors.As(err, &d) && (d.Why == "division by zero" || d.Why == ref.RefusalDifferentLengths) {
			return d.Why
		}
		return ""
	}
	switch w.Kind {
	case "put":
		for _, p := range w.Pairs {
			kv, err := ref.Eval(p[0], &ref.Env{})
			if err != nil {
				if r := reason(err); r != "" {
					return r
				}
				continue
			}
			k, _ := textOf(kv)
			if _, err := ref.Eval(p[1], &ref.Env{Key: k}); err != nil {
				if r := reason(err); r != "" {
					return r
				}
			}
		}
	case "remove":
		for _, ke := range w.Keys {
			if _, err := ref.Eval(ke, &ref.Env{}); err != nil {
				if r := reason(err); r != "" {
					return r
				}
			}
		}
	}
	return ""
}

func modelStep(w *wstmt, prior []store.Pair) (post []store.Pair, writes []store.Pair, ok bool) {
	m := map[string]string{}
	for _, p := range prior {
		m[p.K] = p.V
	}
	switch w.Kind {
	case "put":
		for _, p := range w.Pairs {
			kv, err := ref.Eval(p[0], &ref.Env{})
			if err != nil {
				return prior, nil, false
			}
			k, tk := textOf(kv)
			if !tk {
				return prior, nil, false
			}
			vv, err := ref.Eval(p[1], &ref.Env{Key: k})
			if err != nil {
				return prior, nil, false
			}
			v, tv := textOf(vv)
			if !tv {
				return prior, nil, false
			}
			writes = append(writes, store.Pair{K: k, V: v})
		}
		for _, wr := range writes {
			m[wr.K] = wr.V
		}
	case "remove":
		for _, ke := range w.Keys {
			kv, err := ref.Eval(ke, &ref.Env{})
			if err != nil {
				return prior, nil, false
			}
			k, tk := textOf(kv)
			if !tk {
				return prior, nil, false
			}
			writes = append(writes, store.Pair{K: k})
		}
		for _, wr := range writes {
			delete(m, wr.K)
		}
	case "delete":
		sel, err := refSelect(w.Pred, prior, nil)
		if err != nil {
			return prior, nil, false
		}
		lo, hi := 0, len(sel)
		switch len(w.Lim) {
		case 1:
			hi = w.Lim[0]
		case 2:
			lo, hi = w.Lim[0], w.Lim[0]+w.Lim[1]
		}
		if lo > len(sel) {
			lo = len(sel)
		}
		if hi > len(sel) {
			hi = len(sel)
		}
		for _, p := range sel[lo:hi] {
			writes = append(writes, store.Pair{K: p.K})
			delete(m, p.K)
		}
	case "select":
	}
	keys := make([]string, 0, len(m))
	for k := range m {
		keys = append(keys, k)
	}
	sort.Strings(keys)
	for _, k := range keys {
		post = append(post, store.Pair{K: k, V: m[k]})
	}
	return post, writes, true
}

// ---- alphabets -------------------------------------------------------------

func c12PairPool() [][2]*ref.Expr {
	s := ref.S
	return [][2]*ref.Expr{
		{s("a"), s("1")},
		{s("b"), s("x")},
		{s("a"), s("x")},
		{s("ab"), s("1")},
		{ref.Bin("+", s("a"), s("b")), s("x")},
		{s("b"), ref.Call("str", ref.Call("strlen", ref.Key()))},
		{ref.Bin("+", ref.N(1), ref.N(1)), ref.Call("strlen", ref.Key())},
		{s("2"), s("x")},
		{s("ab"), ref.Call("lower", s("X"))},
		{s("2"), ref.Call("str", ref.Bin("*", ref.N(1), ref.N(1)))},
		// the same value text on two pairs, reading `key`
		{s("a"), c12KeyDependent()},
		{s("ab"), c12KeyDependent()},
		// float-valued keys and values (a literal and a computed one)
		{ref.Fl(1.5), s("x")},
		{ref.Bin("*", ref.Fl(0.5), ref.N(3)), ref.Fl(2.25)},
		// the value is the key itself (no copy is made by an operator or a call)
		{s("ab"), ref.Key()},
	}
}

func c12KeyDependent() *ref.Expr {
	return ref.Bin("+", ref.Call("lower", ref.Key()), ref.S("!"))
}

func c12FailingPairs() [][2]*ref.Expr {
	s := ref.S
	return [][2]*ref.Expr{
		{s("a"), ref.Bin("/", ref.N(1), ref.Bin("-", ref.N(1), ref.N(1)))},
		{s("b"), ref.Call("l2_distance", ref.Call("list", ref.N(1)), ref.Call("list", ref.N(1), ref.N(2)))},
		{ref.Call("join"), s("1")},
	}
}

func c12RemovePool() []*ref.Expr {
	s := ref.S
	return []*ref.Expr{
		s("a"), s("b"), s("ab"), s("zz"), ref.Bin("+", s("a"), s("b")), ref.Bin("+", ref.N(1), ref.N(1)),
		ref.Bin("/", ref.N(1), ref.Bin("-", ref.N(1), ref.N(1))),
		ref.Fl(1.5), ref.Bin("*", ref.Fl(0.5), ref.N(3)), ref.Fl(2.0),
	}
}

// history alphabet used to generate the state space
func historyStmts() []*wstmt {
	var out []*wstmt
	for _, p := range c12PairPool()[:10] { // (the state space stays over values {1, x})
		out = append(out, &wstmt{Kind: "put", Pairs: [][2]*ref.Expr{p}})
	}
	for _, k := range c12RemovePool()[:6] {
		out = append(out, &wstmt{Kind: "remove", Keys: []*ref.Expr{k}})
	}
	out = append(out, &wstmt{Kind: "delete", Pred: ref.Bin("^=", ref.Key(), ref.S("a"))})
	return out
}

type wstate struct {
	pairs   []store.Pair
	history []string
}

var (
	wsOnce   sync.Once
	wsStates []wstate
)

// reachableStates: BFS on the model from the empty store.
func reachableStates() []wstate {
	wsOnce.Do(func() {
		seen := map[string]bool{"{}": true}
		wsStates = []wstate{{}}
		alpha := historyStmts()
		for i := 0; i < len(wsStates); i++ {
			cur := wsStates[i]
			for _, w := range alpha {
				post, _, ok := modelStep(w, cur.pairs)
				if !ok {
					continue
				}
				k := store.CanonPairs(post)
				if !seen[k] {
					seen[k] = true
					h := append(append([]string(nil), cur.history...), w.text())
					wsStates = append(wsStates, wstate{pairs: post, history: h})
				}
			}
		}
	})
	return wsStates
}

// wcase is one transition.
type wcase struct {
	Prop    string       `json:"property"`
	Prior   []store.Pair `json:"prior"`
	History []string     `json:"history"` // statements reaching Prior from the empty store
	Stmt    *wstmt       `json:"stmt"`
	B       int          `json:"b"`
	Polls   string       `json:"polls"` // word over N(ext)/B(atch)/I(nit): the first poll executes, Init re-arms the plan and the next poll executes again
	// Fault1 > 0: the storage call number Fault1 (counted from 1, planning
	// included) fails; a statement that then reports success has done its work
	Fault1 int `json:"fault_at_call,omitempty"`
}

func (c *wcase) text() string {
	f := ""
	if c.Fault1 > 0 {
		f = fmt.Sprintf(" fault@call%d", c.Fault1)
	}
	return fmt.Sprintf("%s | polls=%s B=%d%s prior=%s", c.Stmt.text(), c.Polls, c.B, f, store.CanonPairs(c.Prior))
}

type pollResult struct {
	rows  []string
	err   error
	pan   string
	log   []store.Op // storage calls during this poll
	init  bool       // this step was plan.Init() (poll letter I), not a poll
	state string     // contents of the store after this step
}

// runPolled builds the plan for q on st and applies the poll word.
func runPolled(q string, st *store.MemStore, b int, polls string) (buildErr error, buildPanic string, res []pollResult, buildLog []store.Op) {
	kvql.PlanBatchSize = b
	plan, err, pan, _ := drv.Build(q, st)
	buildLog = append([]store.Op(nil), st.Log...)
	if pan != "" {
		return nil, pan, nil, buildLog
	}
	if err != nil {
		return err, "", nil, buildLog
	}
	ctx := kvql.NewExecuteCtx()
	for _, p := range polls {
		mark := len(st.Log)
		pr := pollResult{}
		func() {
			defer func() {
				if r := recover(); r != nil {
					pr.pan = fmt.Sprint(r)
				}
			}()
			if p == 'I' {
				pr.init = true
				pr.err = plan.Init()
			} else if p == 'N' {
				cols, err := plan.Next(ctx)
				pr.err = err
				if cols != nil {
					row := make([]any, len(cols))
					for i, c := range cols {
						row[i] = c
					}
					pr.rows = append(pr.rows, ref.CanonRow(row))
				}
			} else {
				rows, err := plan.Batch(ctx)
				pr.err = err
				for _, cols := range rows {
					row := make([]any, len(cols))
					for i, c := range cols {
						row[i] = c
					}
					pr.rows = append(pr.rows, ref.CanonRow(row))
				}
			}
		}()
		pr.log = append([]store.Op(nil), st.Log[mark:]...)
		pr.state = st.Canon()
		res = append(res, pr)
	}
	return nil, "", res, buildLog
}

// judgeWrite executes one transition on the real code and compares it with
// the model step.
func judgeWrite(c *wcase) (f *core.Failure, observed string) {
	mk := func(sig, exp, obs string) *core.Failure {
		return &core.Failure{Property: c.Prop, Leg: "transition-vs-model", Sig: sig, Case: c.text(), Data: core.MustJSON(c), Expected: exp, Observed: obs}
	}
	st := store.New(c.Prior)
	q := c.Stmt.text()
	if c.Fault1 > 0 {
		st.FaultAt = c.Fault1 - 1
	}
	berr, bpan, res, blog := runPolled(q, st, c.B, c.Polls)
	post, _, ok := modelStep(c.Stmt, st0(c.Prior))
	logStr := func(ops []store.Op) string {
		parts := make([]string, len(ops))
		for i, o := range ops {
			parts[i] = o.String()
		}
		return strings.Join(parts, " ")
	}
	if c.Fault1 > 0 {
		// a storage call failed. How the error travels is C13's subject; here:
		// success may be reported only for work that was done
		fired := false
		for _, o := range st.Log {
			fired = fired || o.Err
		}
		switch {
		case !fired:
			return nil, "fault-not-reached"
		case bpan != "" || berr != nil || len(res) == 0 || res[0].pan != "":
			return nil, "error:fault-at-planning"
		case res[0].err != nil:
			// the statement failed: polling it again neither repeats its work nor
			// produces a row (it may report the same error again)
			for i, pr := range res[1:] {
				if pr.init {
					break
				}
				if len(pr.log) > 0 || len(pr.rows) > 0 {
					return &core.Failure{Property: c.Prop, Leg: "transition-vs-model", Sig: "failed-statement-resumed-by-later-poll", Case: c.text(), Data: core.MustJSON(c),
						Expected: "no storage call and no row from a poll after the statement failed", Observed: fmt.Sprintf("poll %d: rows %v, calls %s", i+1, pr.rows, logStr(pr.log))}, "x"
				}
			}
			return nil, "error:fault-surfaced"
		case ok && st.Canon() != store.CanonPairs(post):
			return &core.Failure{Property: c.Prop, Leg: "transition-vs-model", Sig: "success-reported-work-not-done", Case: c.text(), Data: core.MustJSON(c),
				Expected: "an error, or the post-state " + store.CanonPairs(post), Observed: fmt.Sprintf("no error, rows %v, post-state %s", res[0].rows, st.Canon())}, "x"
		}
		return nil, "fault-absorbed"
	}
	if bpan != "" {
		return mk("panic", "the statement is planned", "panic: "+bpan), "panic"
	}
	for _, o := range blog {
		if o.Mutating() {
			return mk("write-while-planning", "no mutating call before execution", logStr(blog)), "x"
		}
	}
	if berr != nil {
		if ok {
			return mk("rejected", "the statement is accepted (model post-state "+store.CanonPairs(post)+")", "BuildPlan: "+berr.Error()), "rejected"
		}
		if got := st.Canon(); got != store.CanonPairs(st0(c.Prior)) {
			return mk("state-changed-by-rejected-statement", store.CanonPairs(c.Prior), got), "x"
		}
		return nil, "rejected"
	}
	// a word with Init letters is a sequence of executions of the same plan:
	// each is judged like a first execution, against the model step from the
	// state the previous one left
	if strings.ContainsRune(c.Polls, 'I') {
		prior := st0(c.Prior)
		var cyc []pollResult
		firstSig, nCyc := "", 0
		flush := func() (*core.Failure, string) {
			if len(cyc) == 0 {
				return nil, ""
			}
			// PUT / REMOVE do not read the store: every execution of the plan
			// ends the same way (error or not) and issues the same calls
			if c.Stmt.Kind == "put" || c.Stmt.Kind == "remove" {
				sig := fmt.Sprintf("error=%v calls=", cyc[0].err != nil)
				for _, pr := range cyc {
					for _, o := range pr.log {
						if o.Mutating() {
							sig += o.String() + " "
						}
					}
				}
				if nCyc == 0 {
					firstSig = sig
				} else if sig != firstSig {
					return mk("re-execution-differs", "execution 1: "+firstSig, fmt.Sprintf("execution %d: %s", nCyc+1, sig)), "x"
				}
				nCyc++
			}
			d := *c
			d.Prior = prior
			f, obs := judgeCycle(&d, c, cyc, cyc[len(cyc)-1].state, nil)
			if p2, _, ok2 := modelStep(c.Stmt, prior); ok2 && cyc[0].err == nil {
				prior = p2
			}
			cyc = nil
			return f, obs
		}
		for _, pr := range res {
			if pr.init {
				if f, obs := flush(); f != nil {
					return f, obs
				}
				if pr.pan != "" || pr.err != nil {
					return mk("init-fails", "Init re-arms the plan", fmt.Sprintf("Init: err=%v panic=%s", pr.err, pr.pan)), "x"
				}
				for _, o := range pr.log {
					if o.Mutating() {
						return mk("write-in-init", "no mutating call in Init", logStr(pr.log)), "x"
					}
				}
				continue
			}
			cyc = append(cyc, pr)
		}
		return flush()
	}
	return judgeCycle(c, c, res, st.Canon(), st)
}

// judgeCycle judges one execution of the plan (its first poll executes, the
// others find it finished) from the state c.Prior; rep is the case reported.
func judgeCycle(c, rep *wcase, res []pollResult, got string, st *store.MemStore) (f *core.Failure, observed string) {
	mk := func(sig, exp, obs string) *core.Failure {
		return &core.Failure{Property: rep.Prop, Leg: "transition-vs-model", Sig: sig, Case: rep.text(), Data: core.MustJSON(rep), Expected: exp, Observed: obs}
	}
	logStr := func(ops []store.Op) string {
		parts := make([]string, len(ops))
		for i, o := range ops {
			parts[i] = o.String()
		}
		return strings.Join(parts, " ")
	}
	post, writes, ok := modelStep(c.Stmt, st0(c.Prior))
	// polls: first executes; collect the mutating calls
	var muts []store.Op
	for i, pr := range res {
		if pr.pan != "" {
			return mk("panic", "poll returns", fmt.Sprintf("poll %d panicked: %s", i, pr.pan)), "panic"
		}
		for _, o := range pr.log {
			if o.Mutating() {
				if i > 0 {
					return mk("write-on-later-poll", "writes are issued exactly once, by the first poll", fmt.Sprintf("poll %d of the execution (word %s) issued %s", i, rep.Polls, o)), "x"
				}
				muts = append(muts, o)
			}
		}
		if i > 0 {
			if len(pr.log) > 0 {
				return mk("storage-call-on-later-poll", "no storage call after the statement finished", fmt.Sprintf("poll %d of the execution (word %s): %s", i, rep.Polls, logStr(pr.log))), "x"
			}
			// (a statement that failed may stay failed: the same error again, no row)
			stillFailed := pr.err != nil && res[0].err != nil && pr.err.Error() == res[0].err.Error()
			if len(pr.rows) > 0 || pr.err != nil && !stillFailed {
				return mk("result-on-later-poll", "end of stream", fmt.Sprintf("poll %d of the execution (word %s) returned rows=%v err=%v", i, rep.Polls, pr.rows, pr.err)), "x"
			}
		}
	}
	first := res[0]
	observed = got + "|" + logStr(muts)
	if first.err != nil {
		if len(muts) > 0 {
			return mk("write-despite-failure", "no write at all when the statement fails", "error "+first.err.Error()+" after "+logStr(muts)), observed
		}
		if got != store.CanonPairs(st0(c.Prior)) {
			return mk("state-changed-despite-failure", store.CanonPairs(c.Prior), got), observed
		}
		if ok {
			return mk("unexpected-error", "post-state "+store.CanonPairs(post), "error: "+first.err.Error()), observed
		}
		return nil, "error:" + observed
	}
	if !ok {
		if why := mustFail(c.Stmt); why != "" {
			// all-or-nothing: an expression whose evaluation fails fails the
			// statement, whatever would have become of its pair
			return mk("failing-expression-ignored", "the statement fails ("+why+") and writes nothing", "completed without error: post-state "+got+" via "+logStr(muts)), observed
		}
		// the engine accepted what the reference does not define: out of domain
		return nil, "out-of-domain"
	}
	if got != store.CanonPairs(post) {
		return mk("wrong-post-state", "post-state "+store.CanonPairs(post), "post-state "+got+" via "+logStr(muts)), observed
	}
	// the mutating calls must carry exactly the stated writes, each once
	switch c.Stmt.Kind {
	case "put":
		var carried []store.Pair
		for _, o := range muts {
			switch o.Kind {
			case "Put", "BatchPut":
				for i := 0; i+1 < len(o.Args); i += 2 {
					carried = append(carried, store.Pair{K: o.Args[i], V: o.Args[i+1]})
				}
			default:
				return mk("wrong-call-kind", "only Put/BatchPut", logStr(muts)), observed
			}
		}
		// the calls carry the stated writes' effect and nothing else (see sameWrites)
		if msg := sameWrites(carried, writes); msg != "" {
			return mk("writes-differ-from-statement", "writes with the effect of "+store.CanonPairsList(writes)+" (per key the last stated value last)", "writes "+store.CanonPairsList(carried)+": "+msg), observed
		}
	case "remove":
		var carried []string
		for _, o := range muts {
			switch o.Kind {
			case "Delete", "BatchDelete":
				carried = append(carried, o.Args...)
			default:
				return mk("wrong-call-kind", "only Delete/BatchDelete", logStr(muts)), observed
			}
		}
		var want []string
		for _, w := range writes {
			want = append(want, w.K)
		}
		// the keys removed are the keys stated: every one of them at least once
		// and at most as often as stated, no other key; their order is free
		cnt := func(ks []string) map[string]int {
			m := map[string]int{}
			for _, k := range ks {
				m[k]++
			}
			return m
		}
		cg, cw := cnt(carried), cnt(want)
		same := len(cg) == len(cw)
		for k, n := range cw {
			same = same && cg[k] >= 1 && cg[k] <= n
		}
		if !same {
			return mk("removes-differ-from-statement", fmt.Sprintf("removes of exactly the keys %q", want), fmt.Sprintf("removes %q", carried)), observed
		}
	case "delete":
		for _, o := range muts {
			if o.Kind == "Put" || o.Kind == "BatchPut" {
				return mk("delete-wrote-a-pair", "no pair is written", logStr(muts)), observed
			}
		}
	case "select":
		if len(muts) > 0 {
			return mk("select-mutated", "no mutating call", logStr(muts)), observed
		}
	}
	// follow-up reads observe the writes
	if st == nil {
		return nil, observed
	}
	for _, w := range writes {
		st2 := st.Clone()
		out := drv.Run("select * where key = '"+w.K+"'", st2, drv.Opt{Mode: drv.Row, B: c.B})
		var want []string
		for _, p := range post {
			if p.K == w.K {
				want = drv.PairsRows([]store.Pair{p})
			}
		}
		if out.Failed() || !drv.EqualRows(out.Rows, want) {
			return mk("follow-up-select-disagrees", fmt.Sprintf("select * where key = '%s' -> %v", w.K, want), out.Describe()), observed
		}
	}
	return nil, observed
}

// sameWrites: the writes issued (got) have the effect of the writes stated
// (want) and carry nothing else. For every stated key the last value issued is
// the last value stated (a later duplicate wins), every value issued for a key
// is one of the values stated for it, every stated key is written and no other
// key is. Whether a pair that a later pair of the same statement overwrites
// reaches the storage at all is not prescribed (the property speaks of the
// state the statement leaves), nor is the order of writes to different keys.
func sameWrites(got, want []store.Pair) string {
	per := func(ps []store.Pair) (map[string][]string, []string) {
		m := map[string][]string{}
		var order []string
		for _, p := range ps {
			if _, ok := m[p.K]; !ok {
				order = append(order, p.K)
			}
			m[p.K] = append(m[p.K], p.V)
		}
		return m, order
	}
	g, _ := per(got)
	w, worder := per(want)
	for _, k := range worder {
		vs, gs := w[k], g[k]
		if len(gs) == 0 {
			return fmt.Sprintf("key %q: stated %q, never written", k, vs)
		}
		if gs[len(gs)-1] != vs[len(vs)-1] {
			return fmt.Sprintf("key %q: last value issued %q, last value stated %q", k, gs[len(gs)-1], vs[len(vs)-1])
		}
		if len(gs) > len(vs) {
			return fmt.Sprintf("key %q: %d writes issued for %d stated", k, len(gs), len(vs))
		}
		for _, x := range gs {
			ok := false
			for _, y := range vs {
				ok = ok || x == y
			}
			if !ok {
				return fmt.Sprintf("key %q: value %q issued, stated %q", k, x, vs)
			}
		}
	}
	for k := range g {
		if _, ok := w[k]; !ok {
			return fmt.Sprintf("key %q written but not stated", k)
		}
	}
	return ""
}

func replayWrite(prop string, data json.RawMessage) *core.Failure {
	var c wcase
	if err := json.Unmarshal(data, &c); err != nil || c.Stmt == nil {
		return nil
	}
	c.Prop = prop
	// re-establish the prior state through the real statements of the history
	if len(c.History) > 0 {
		st := store.New(nil)
		for _, h := range c.History {
			drv.Run(h, st, drv.Opt{Mode: drv.Batch, B: 32})
		}
		if st.Canon() != store.CanonPairs(st0(c.Prior)) {
			return &core.Failure{Property: prop, Leg: "history-replay", Sig: "history-diverges", Case: c.text(), Data: data,
				Expected: "history " + strings.Join(c.History, " ; ") + " reaches " + store.CanonPairs(c.Prior), Observed: st.Canon()}
		}
	}
	f, _ := judgeWrite(&c)
	return f
}

func simplifyWrite(data json.RawMessage) []json.RawMessage {
	var c wcase
	if err := json.Unmarshal(data, &c); err != nil || c.Stmt == nil {
		return nil
	}
	var out []json.RawMessage
	emit := func(d wcase) { d.History = nil; out = append(out, core.MustJSON(d)) }
	w := c.Stmt
	switch w.Kind {
	case "put":
		for i := range w.Pairs {
			if len(w.Pairs) > 1 {
				d := c
				n := *w
				n.Pairs = append(append([][2]*ref.Expr(nil), w.Pairs[:i]...), w.Pairs[i+1:]...)
				d.Stmt = &n
				emit(d)
			}
		}
	case "remove":
		for i := range w.Keys {
			if len(w.Keys) > 1 {
				d := c
				n := *w
				n.Keys = append(append([]*ref.Expr(nil), w.Keys[:i]...), w.Keys[i+1:]...)
				d.Stmt = &n
				emit(d)
			}
		}
	case "delete":
		for _, p := range boolSimplifications(w.Pred) {
			d := c
			n := *w
			n.Pred = p
			d.Stmt = &n
			emit(d)
		}
		if len(w.Lim) > 0 {
			d := c
			n := *w
			n.Lim = nil
			d.Stmt = &n
			emit(d)
		}
	}
	for _, ps := range dropOnePair(c.Prior) {
		d := c
		d.Prior = ps
		emit(d)
	}
	if len(c.Polls) > 1 {
		d := c
		d.Polls = c.Polls[:len(c.Polls)-1]
		emit(d)
	}
	if c.B > 1 {
		d := c
		d.B = 1
		emit(d)
	}
	return out
}

// ---- C11 ---------------------------------------------------------------------

type c11 struct{}

func init() { core.Register(c11{}); core.Register(c12{}) }

func (c11) Info() core.Info {
	return core.Info{
		ID:    "C11",
		Title: "DELETE removes exactly the pairs its WHERE (and LIMIT) selects",
		Level: "model_checking",
		Rule: "explicit-state search: states = all stores reachable from the empty store through put/remove/delete statements over keys {a,ab,b,2} x values {1,x} (81 states, breadth-first on the reference map, shortest history kept); transitions = `delete where P [limit]` for every predicate of a pool (point, IN, prefix, half/closed ranges, literal on the left, AND/OR mixes that do and do not qualify for the direct-removal shortcut, value predicates, true, false) x limits {none, 1, 2, (0,0), (1,1), (1,2), (2,1)} x batch sizes {1,2,3} x poll words (first poll Next or Batch, then 0..2 more polls); every transition is executed on the real plan over a clone of the state and compared with the model step: post-state = prior minus the keys `select * where P limit` picks, no pair written, no storage call on later polls, follow-up point reads agree. " +
			"Non-trivial: the transition deletes a proper non-empty part of a state. Distinct: (state, statement, B, polls)." +
			" Faults: for every state, every (quick: a third of the) predicate x limit pairs, row and batch poll, every storage call of the DELETE fails in turn: a statement that then reports success has left the model's post-state.",
		Assumptions:      []string{"storage with snapshot cursors (DESIGN.md §2)", "every statement builds a fresh plan; the storage has no hidden state (so all histories reduce to all transitions from all reachable states)"},
		CrashIsViolation: true,
	}
}

func c11Preds() []*ref.Expr {
	k, v, s := ref.Key, ref.Value, ref.S
	eq := func(l string) *ref.Expr { return ref.Bin("=", k(), s(l)) }
	return []*ref.Expr{
		eq("a"), eq("ab"), eq("zz"), ref.Bin("=", s("b"), k()),
		ref.In(k(), s("a"), s("b")), ref.In(k(), s("ab"), s("zz"), s("2")), ref.In(k(), s("a"), s("a")),
		ref.Bin("|", eq("a"), eq("b")), ref.Bin("or", eq("a"), eq("ab")), ref.Bin("|", ref.In(k(), s("a"), s("2")), eq("ab")),
		ref.Bin("|", eq("a"), ref.Bin("|", eq("b"), eq("2"))),
		ref.Bin("&", eq("a"), ref.Bin("=", v(), s("1"))), ref.Bin("and", eq("a"), ref.Bin("=", v(), s("x"))),
		ref.Bin("&", ref.Bin("|", eq("a"), eq("b")), ref.Bin("=", v(), s("1"))),
		ref.Bin("&", ref.In(k(), s("a"), s("b"), s("ab")), ref.Bin("^=", k(), s("a"))),
		ref.Bin("|", eq("a"), ref.Bin("=", v(), s("x"))),
		ref.Bin("|", ref.Bin("&", eq("a"), ref.Bin("=", v(), s("1"))), eq("b")),
		// a literal key set cut by further key-only conditions whose bound is one of the listed keys
		ref.Bin("&", ref.In(k(), s("a"), s("ab"), s("b")), ref.Bin(">", k(), s("a"))),
		ref.Bin("and", ref.In(k(), s("a"), s("ab"), s("b")), ref.Bin("<", k(), s("b"))),
		ref.Bin("&", ref.In(k(), s("a"), s("ab"), s("b"), s("2")), ref.Bin("<", s("a"), k())),
		ref.Bin("&", ref.Bin(">", k(), s("ab")), ref.In(k(), s("ab"), s("b"))),
		ref.Bin("&", ref.Bin("|", eq("a"), eq("b")), ref.Bin(">=", k(), s("b"))),
		ref.Bin("&", ref.In(k(), s("a"), s("b"), s("2")), ref.Btw(k(), s("a"), s("ab"))),
		ref.Bin("&", ref.In(k(), s("a"), s("ab")), ref.Bin("!=", k(), s("a"))),
		ref.Bin("&", ref.In(k(), s("a"), s("ab")), ref.Not(eq("a"))),
		ref.Bin("&", ref.Bin("&", ref.In(k(), s("a"), s("ab"), s("b")), ref.Bin(">", k(), s("a"))), ref.Bin("<", k(), s("b"))),
		ref.Bin("&", ref.In(k(), s("a"), s("ab"), s("b")), ref.Bin("^=", s("ab"), k())),
		ref.Bin("&", ref.In(k(), s("a"), s("ab"), s("b")), ref.In(k(), s("ab"), s("b"), s("zz"))),
		ref.Bin("^=", k(), s("a")), ref.Bin("^=", k(), s("ab")), ref.Bin("^=", k(), s("")), ref.Bin("^=", k(), s("z")),
		ref.Bin(">", k(), s("a")), ref.Bin(">=", k(), s("ab")), ref.Bin("<", k(), s("b")), ref.Bin("<=", k(), s("a")),
		ref.Bin(">", s("b"), k()), ref.Bin("<=", s("ab"), k()),
		ref.Btw(k(), s("a"), s("b")), ref.Btw(k(), s("2"), s("ab")),
		ref.Bin("|", ref.Bin(">", k(), s("ab")), ref.Bin("<", k(), s("a"))),
		ref.Bin("&", ref.Bin(">", k(), s("2")), ref.Bin("<", k(), s("b"))),
		ref.Bin("|", ref.Bin("^=", k(), s("a")), eq("b")),
		ref.Bin("&", ref.Bin("^=", k(), s("a")), ref.Bin("=", v(), s("1"))),
		ref.Bin("=", v(), s("1")), ref.Bin("=", v(), s("x")), ref.Bin("!=", v(), s("1")), ref.Bin("^=", v(), s("")),
		ref.Not(eq("a")), ref.Not(ref.Bin("=", v(), s("1"))),
		ref.Bin("!=", k(), s("a")),
		ref.Bin("~=", k(), s("^a")),
		ref.Bin("=", ref.Call("strlen", k()), ref.N(1)),
		ref.Call("is_int", k()),
		ref.Bin(">", ref.Call("strlen", ref.Bin("+", k(), v())), ref.N(2)),
		ref.Bl(true), ref.Bl(false),
	}
}

var c11Limits = [][]int{nil, {1}, {2}, {0, 0}, {1, 1}, {1, 2}, {2, 1}, {0, 3}, {3, 1}, {1, 3}, {1, 4}, {2, 2}, {0, 4}, {4, 4}}
var c11Polls = []string{"N", "B", "NN", "BB", "NB", "BN", "NNN", "BBB", "BNB"}

const c11LongUnits = 8

const c11EdgeUnits = 3

func (c11) Units(t core.Tier) int { return len(reachableStates()) + c11LongUnits + c11EdgeUnits }

// c11Edge: the 27 stores over keys {'', a, b} x values {1, x} (the empty key is
// a key like any other) under predicates that compare the key with the empty
// literal, alone and joined with key pins: a region that merely contains the
// matching keys must not be removed as if it were the set of matching keys.
func c11Edge(t core.Tier, part int, r *core.Reporter) {
	k, v, sx := ref.Key, ref.Value, ref.S
	eq := func(l string) *ref.Expr { return ref.Bin("=", k(), sx(l)) }
	atoms := []*ref.Expr{
		ref.Bin("<", k(), sx("")), ref.Bin(">", sx(""), k()), ref.Bin("<=", k(), sx("")), ref.Bin(">=", sx(""), k()), eq(""), ref.Bin("=", sx(""), k()),
		ref.Bin(">", k(), sx("")), ref.Bin(">=", k(), sx("")), ref.Bin("<", sx(""), k()), ref.Bin("!=", k(), sx("")), ref.Bin("^=", k(), sx("")),
		ref.In(k(), sx(""), sx("a")), ref.In(k(), sx("")), ref.Btw(k(), sx(""), sx("")), ref.Btw(k(), sx(""), sx("a")), ref.Bin("<", k(), sx("a")), ref.Bin("<=", k(), sx("a")),
	}
	preds := append([]*ref.Expr(nil), atoms...)
	for _, a := range atoms {
		preds = append(preds,
			ref.Bin("|", eq("b"), a.Clone()), ref.Bin("|", a.Clone(), ref.In(k(), sx("a"), sx("b"))), ref.Bin("or", a.Clone(), eq("zz")),
			ref.Bin("&", a.Clone(), ref.Bin("=", v(), sx("1"))), ref.Bin("&", ref.In(k(), sx(""), sx("a"), sx("b")), a.Clone()), ref.Bin("|", a.Clone(), ref.Bin("=", v(), sx("x"))), ref.Not(a.Clone()))
		for _, b := range atoms[:6] {
			preds = append(preds, ref.Bin("|", a.Clone(), b.Clone()), ref.Bin("&", a.Clone(), b.Clone()))
		}
	}
	keys := []string{"", "a", "b"}
	vals := []string{"1", "x"}
	for code := part; code < 27; code += c11EdgeUnits {
		var ps []store.Pair
		x := code
		for _, key := range keys {
			d := x % 3
			x /= 3
			if d > 0 {
				ps = append(ps, store.Pair{K: key, V: vals[d-1]})
			}
		}
		for _, p := range preds {
			for _, lim := range [][]int{nil, {1}, {1, 1}, {0, 5}} {
				w := &wstmt{Kind: "delete", Pred: p, Lim: lim}
				for _, b := range []int{1, 2} {
					for _, polls := range []string{"N", "B"} {
						c := wcase{Prop: "C11", Prior: ps, Stmt: w, B: b, Polls: polls}
						runWriteCase(r, &c)
					}
				}
			}
		}
	}
}

// c11Long: DELETE over 8-pair stores outside the 81-state space (every
// accept/reject pattern of a value filter), so that child chunks larger than
// the batch size, several chunks per statement and LIMIT windows across chunk
// boundaries occur; judged against the same model.
func c11Long(t core.Tier, part int, r *core.Reporter) {
	k, v, sx := ref.Key, ref.Value, ref.S
	var all []*ref.Expr
	for i := 0; i < 8; i++ {
		all = append(all, sx(fmt.Sprintf("k%d", i)))
	}
	preds := []*ref.Expr{
		ref.Bin("=", v(), sx("y")),
		ref.Bin("&", ref.Bin("^=", k(), sx("k")), ref.Bin("=", v(), sx("y"))),
		ref.Bin("&", ref.Bin(">=", k(), sx("k0")), ref.Bin("!=", v(), sx("n"))),
		ref.Bin("&", ref.In(k(), all...), ref.Bin("=", v(), sx("y"))),
		ref.Bin("|", ref.Bin("=", v(), sx("y")), ref.Bin("=", k(), sx("k7"))),
	}
	bs := []int{1, 2, 3}
	if t == core.Thorough {
		bs = []int{1, 2, 3, 4, 5}
	}
	for pat := part; pat < 256; pat += c11LongUnits {
		ps := make([]store.Pair, 8)
		for i := range ps {
			val := "n"
			if pat&(1<<i) != 0 {
				val = "y"
			}
			ps[i] = store.Pair{K: fmt.Sprintf("k%d", i), V: val}
		}
		for _, p := range preds {
			for _, lim := range [][]int{nil, {1, 3}, {2, 4}, {0, 5}, {3}} {
				w := &wstmt{Kind: "delete", Pred: p, Lim: lim}
				for _, b := range bs {
					for _, polls := range []string{"N", "B"} {
						c := wcase{Prop: "C11", Prior: ps, Stmt: w, B: b, Polls: polls}
						runWriteCase(r, &c)
					}
				}
			}
		}
	}
}

func (c11) RunUnit(t core.Tier, u int, r *core.Reporter) {
	if u >= len(reachableStates())+c11LongUnits {
		c11Edge(t, u-len(reachableStates())-c11LongUnits, r)
		return
	}
	if u >= len(reachableStates()) {
		c11Long(t, u-len(reachableStates()), r)
		return
	}
	stt := reachableStates()[u]
	r.Count("states", 1)
	r.Max("max_shortest_history", int64(len(stt.history)))
	bs := []int{1, 2, 3}
	if t == core.Thorough {
		bs = []int{1, 2, 3, 4, 5, 32}
	}
	for _, p := range c11Preds() {
		for _, lim := range c11Limits {
			w := &wstmt{Kind: "delete", Pred: p, Lim: lim}
			for _, b := range bs {
				for _, polls := range c11Polls {
					c := wcase{Prop: "C11", Prior: stt.pairs, History: stt.history, Stmt: w, B: b, Polls: polls}
					runWriteCase(r, &c)
				}
			}
		}
	}
	// the history statements themselves are transitions too
	for _, w := range historyStmts() {
		c := wcase{Prop: "C11", Prior: stt.pairs, History: stt.history, Stmt: w, B: 2, Polls: "B"}
		runWriteCase(r, &c)
	}
	// a storage call fails in the middle of the DELETE (every call in turn):
	// the statement may report success only if the selected pairs are gone
	for pi, p := range c11Preds() {
		for li, lim := range c11Limits {
			if t == core.Quick && (pi+li+u)%3 != 0 {
				continue // quick tier: a third of the (predicate, limit) grid per state
			}
			w := &wstmt{Kind: "delete", Pred: p, Lim: lim}
			for _, polls := range []string{"N", "B"} {
				probe := store.New(stt.pairs)
				runPolled(w.text(), probe, 2, polls)
				for f := 1; f <= len(probe.Log); f++ {
					c := wcase{Prop: "C11", Prior: stt.pairs, History: stt.history, Stmt: w, B: 2, Polls: polls, Fault1: f}
					runWriteCase(r, &c)
				}
			}
		}
	}
}

func runWriteCase(r *core.Reporter, c *wcase) {
	if !r.Begin(func() *core.Failure {
		return &core.Failure{Property: c.Prop, Leg: "transition-vs-model", Case: c.text(), Data: core.MustJSON(c)}
	}) {
		return
	}
	f, obs := judgeWrite(c)
	r.Evals(1)
	r.Count("transitions", 1)
	status := "ok"
	if obs == "rejected" || obs == "out-of-domain" || strings.HasPrefix(obs, "error:") {
		status = strings.SplitN(obs, ":", 2)[0]
	}
	if f != nil {
		status = "violation:" + f.Sig
		r.Fail(*f)
	}
	post, writes, ok := modelStep(c.Stmt, st0(c.Prior))
	nontrivial := ok && len(writes) > 0 && store.CanonPairs(post) != store.CanonPairs(st0(c.Prior))
	if c.Stmt.Kind == "delete" {
		nontrivial = nontrivial && len(post) > 0
	}
	r.Case(c.text(), nontrivial, status)
	r.Observed(obs)
}

func (c11) Replay(data json.RawMessage) *core.Failure       { return replayWrite("C11", data) }
func (c11) Simplify(data json.RawMessage) []json.RawMessage { return simplifyWrite(data) }

// ---- C12 ---------------------------------------------------------------------

type c12 struct{}

func (c12) Info() core.Info {
	return core.Info{
		ID:    "C12",
		Title: "PUT and REMOVE apply exactly the stated writes, once, all-or-nothing",
		Level: "model_checking",
		Rule: "explicit-state search over the same 81-state space as C11 (C11 additionally runs DELETE over all 256 accept/reject patterns of 8-pair stores): transitions = long `put` / `remove` lists (4..40 elements with duplicate keys in three patterns) and `put` with every list of 1..3 pairs from a pool of 15 pair expressions (literals, duplicate keys, concatenated and numeric keys, values that read `key`, function calls) plus 3 failing ones at every position, `remove` with every list of 1..3 keys from a pool of 10 (one failing), each under every poll word of length 1..4 over {Next,Batch} (quick: length <= 3 for 3-element lists) at batch sizes {1,32}, plus statically forbidden forms; every transition runs on the real plan over a clone of the state. Oracle: post-state = model (later duplicate wins; value sees its own key); the pairs/keys carried by the mutating calls, in call order, are exactly the evaluated list (each stated write once); no write on evaluation failure; no storage call and no row on later polls; a follow-up `select * where key = k` observes each write; forbidden forms are rejected with an empty call log. " +
			"Non-trivial: the statement changes the state or fails at evaluation. Distinct: (state, statement, B, polls)." +
			" A division by zero or a distance of vectors of different lengths in any key / value expression fails the statement even if the pair would have been overwritten. Faults: every storage call of a PUT / REMOVE fails in turn under the poll words NN, BN, NBB: success only with the model's post-state, and a poll after the failure neither touches the storage nor returns a row (it may report the same error again).",
		Assumptions:      []string{"whether writes travel as Put or BatchPut is not prescribed (the property says 'exactly once'), nor whether a pair overwritten by a later pair of the same statement (or a key named twice by REMOVE) reaches the storage more than once: the calls must carry the stated writes' effect and nothing else", "numbers written by PUT are compared as decimal integers only (no float rendering is documented)"},
		CrashIsViolation: true,
	}
}

func pollWords(max int) []string {
	var out []string
	var rec func(cur string)
	rec = func(cur string) {
		if len(cur) >= 1 {
			out = append(out, cur)
		}
		if len(cur) == max {
			return
		}
		rec(cur + "N")
		rec(cur + "B")
	}
	rec("")
	return out
}

func (c12) Units(t core.Tier) int { return len(reachableStates()) }

func (c12) RunUnit(t core.Tier, u int, r *core.Reporter) {
	stt := reachableStates()[u]
	r.Count("states", 1)
	r.Max("max_shortest_history", int64(len(stt.history)))
	pool := append(c12PairPool(), c12FailingPairs()...)
	words4 := pollWords(4)
	words3 := pollWords(3)
	words2 := pollWords(2)
	run := func(w *wstmt, words []string, bs []int) {
		for _, b := range bs {
			for _, polls := range words {
				c := wcase{Prop: "C12", Prior: stt.pairs, History: stt.history, Stmt: w, B: b, Polls: polls}
				runWriteCase(r, &c)
			}
		}
	}
	// the same plan executed again after Init (which re-arms it): every
	// execution is the statement once more, a failing one fails again
	rerun := []string{"NIN", "BIB", "NIB", "BNINB", "NINIB"}
	for _, p1 := range pool {
		run(&wstmt{Kind: "put", Pairs: [][2]*ref.Expr{p1}}, words4, []int{1, 32})
		run(&wstmt{Kind: "put", Pairs: [][2]*ref.Expr{p1}}, rerun, []int{32})
		for _, p2 := range pool {
			run(&wstmt{Kind: "put", Pairs: [][2]*ref.Expr{p1, p2}}, words3, []int{1, 32})
			run(&wstmt{Kind: "put", Pairs: [][2]*ref.Expr{p1, p2}}, rerun[:3], []int{32})
			for _, p3 := range pool {
				ws, bs := words2, []int{32}
				if t == core.Thorough {
					ws, bs = words3, []int{1, 32}
				}
				run(&wstmt{Kind: "put", Pairs: [][2]*ref.Expr{p1, p2, p3}}, ws, bs)
			}
		}
	}
	// the write itself fails (every storage call of the statement in turn) and
	// the plan is polled again: the failed statement is not carried out by a
	// later poll, and reports success only for work that was done
	faultRun := func(w *wstmt) {
		for _, polls := range []string{"NN", "BN", "NBB"} {
			probe := store.New(stt.pairs)
			runPolled(w.text(), probe, 32, polls[:1])
			for f := 1; f <= len(probe.Log); f++ {
				c := wcase{Prop: "C12", Prior: stt.pairs, History: stt.history, Stmt: w, B: 32, Polls: polls, Fault1: f}
				runWriteCase(r, &c)
			}
		}
	}
	for _, p1 := range c12PairPool() {
		faultRun(&wstmt{Kind: "put", Pairs: [][2]*ref.Expr{p1}})
		for _, p2 := range c12PairPool()[:6] {
			faultRun(&wstmt{Kind: "put", Pairs: [][2]*ref.Expr{p1, p2}})
		}
	}
	for _, k1 := range c12RemovePool() {
		faultRun(&wstmt{Kind: "remove", Keys: []*ref.Expr{k1}})
		for _, k2 := range c12RemovePool()[:4] {
			faultRun(&wstmt{Kind: "remove", Keys: []*ref.Expr{k1, k2}})
		}
	}
	// long lists with duplicate keys: "overwritten in order, a later duplicate wins"
	// must not depend on the list being short
	ks := []string{"a", "b", "ab", "2"}
	for _, n := range []int{4, 7, 12, 13, 16, 20, 33, 40} {
		for pat := 0; pat < 3; pat++ {
			var pairs [][2]*ref.Expr
			for i := 0; i < n; i++ {
				v := "1"
				if (i/len(ks)+i+pat)%2 == 0 || (pat == 2 && i%3 == 0) {
					v = "x"
				}
				k := ks[(i*(pat+1))%len(ks)]
				pairs = append(pairs, [2]*ref.Expr{ref.S(k), ref.S(v)})
			}
			run(&wstmt{Kind: "put", Pairs: pairs}, []string{"N", "B", "NB"}, []int{1, 32})
			var keys []*ref.Expr
			for i := 0; i < n; i++ {
				keys = append(keys, ref.S(ks[(i*(pat+1))%len(ks)]))
			}
			run(&wstmt{Kind: "remove", Keys: keys}, []string{"N", "B"}, []int{32})
		}
	}
	// every pattern of repeated keys: all key sequences of length 4 and 5 over
	// three keys, each pair with a value of its own (a value that ends under
	// another key, or a key that keeps an earlier value, shows in the state)
	for _, n := range []int{4, 5} {
		total := 1
		for i := 0; i < n; i++ {
			total *= 3
		}
		for code := 0; code < total; code++ {
			var pairs [][2]*ref.Expr
			var keys []*ref.Expr
			x := code
			for i := 0; i < n; i++ {
				k := []string{"a", "b", "ab"}[x%3]
				x /= 3
				pairs = append(pairs, [2]*ref.Expr{ref.S(k), ref.S(fmt.Sprintf("v%d", i))})
				keys = append(keys, ref.S(k))
			}
			if u%3 == code%3 { // (a third of the patterns per state: every pattern meets 27 states)
				run(&wstmt{Kind: "put", Pairs: pairs}, []string{"N", "B"}, []int{32})
				run(&wstmt{Kind: "remove", Keys: keys}, []string{"B"}, []int{32})
			}
		}
	}
	rp := c12RemovePool()
	for _, k1 := range rp {
		run(&wstmt{Kind: "remove", Keys: []*ref.Expr{k1}}, words4, []int{1, 32})
		run(&wstmt{Kind: "remove", Keys: []*ref.Expr{k1}}, rerun, []int{32})
		for _, k2 := range rp {
			run(&wstmt{Kind: "remove", Keys: []*ref.Expr{k1, k2}}, words3, []int{1, 32})
			run(&wstmt{Kind: "remove", Keys: []*ref.Expr{k1, k2}}, rerun[:3], []int{32})
			for _, k3 := range rp {
				run(&wstmt{Kind: "remove", Keys: []*ref.Expr{k1, k2, k3}}, words2, []int{32})
			}
		}
	}
	// statically forbidden forms: rejected, no storage call at all
	for _, q := range []string{
		"put ('a', value)", "put ('a', upper(value))", "put ('a', '1'), ('b', value)", "put (value, '1')",
		"remove key", "remove value", "remove 'a', key", "remove upper(value)", "remove 'a' + key",
		"put ('a', true)", "put (true, 'a')", "remove true", "put ('a', list(1,2))", "remove list(1)",
	} {
		q := q
		if !r.Begin(func() *core.Failure {
			return &core.Failure{Property: "C12", Leg: "forbidden-form", Case: q + " | prior=" + store.CanonPairs(stt.pairs), Data: core.MustJSON(map[string]any{"forbidden": q, "prior": stt.pairs})}
		}) {
			continue
		}
		f := judgeForbidden(q, stt.pairs)
		r.Evals(1)
		r.Count("transitions", 1)
		status := "ok"
		if f != nil {
			status = "violation:" + f.Sig
			r.Fail(*f)
		}
		r.Case(q+" | prior="+store.CanonPairs(stt.pairs), true, status)
	}
}

func judgeForbidden(q string, prior []store.Pair) *core.Failure {
	st := store.New(prior)
	out := drv.Run(q, st, drv.Opt{Mode: drv.Row, B: 32})
	text := q + " | prior=" + store.CanonPairs(prior)
	mk := func(sig, exp, obs string) *core.Failure {
		return &core.Failure{Property: "C12", Leg: "forbidden-form", Sig: sig, Case: text, Data: core.MustJSON(map[string]any{"forbidden": q, "prior": prior}), Expected: exp, Observed: obs}
	}
	if out.Panic != "" {
		return mk("panic", "rejected with an error", out.Describe())
	}
	if out.BuildErr == nil {
		return mk("accepted", "rejected at plan time", out.Describe())
	}
	if len(st.Log) != 0 {
		return mk("storage-call-by-rejected-statement", "no storage call", fmt.Sprint(st.Log))
	}
	return nil
}

func (c12) Replay(data json.RawMessage) *core.Failure {
	var fb struct {
		Forbidden string       `json:"forbidden"`
		Prior     []store.Pair `json:"prior"`
	}
	if json.Unmarshal(data, &fb) == nil && fb.Forbidden != "" {
		return judgeForbidden(fb.Forbidden, fb.Prior)
	}
	return replayWrite("C12", data)
}
func (c12) Simplify(data json.RawMessage) []json.RawMessage { return simplifyWrite(data) }
