package checks

import (
	"encoding/json"
	"fmt"
	"sort"
	"strings"

	"verif/mc/core"
	"verif/mc/drv"
	"verif/mc/ref"
	"verif/mc/store"
)

// C18 — key-pinning filters read only the pinned keys or region from storage.

type c18 struct{}

func init() { core.Register(c18{}) }

func (c18) Info() core.Info {
	return core.Info{
		ID:    "C18",
		Title: "Key-pinning filters read only the pinned keys or region from storage",
		Level: "exploration",
		Rule: "all canonical key-pinning shapes (key = l, key in (..), key ^= l, key > >= < <= l, between) alone, AND-ed with an opaque predicate on either side, and AND-ed with a second pin, plus the unsatisfiable shapes (false, disjoint equalities / prefixes / ranges), literals from {'',a,ab,b,c}, on all 128 sub-stores of {'',a,ab,abb,b,ba,c}; row drain and batch drains at B in {1,2,32}. " +
			"Oracle on the storage call log of a standard full drain: equality/IN => only Get of pinned keys and no cursor; unsatisfiable => no call at all; prefix/range => no key before the region start and at most one key beyond its end is returned by Cursor.Next, for the region (closed reading) of at least one conjunct. Non-trivial: the store holds keys both inside and outside the pinned region. Distinct: (predicate, store, mode, B)." +
			" Every drain polls twice more after the end of the result; every pair of same-kind pins that exclude one another on their face (key sets, prefixes, closed ranges; both operand orders) is unsatisfiable.",
		Assumptions: []string{
			"`key > l` / `key < l` pin the closed half-line (the weakest reading of the property text); 'one key beyond the end' is counted per full drain",
			"standard drain: Next until (nil,nil) / Batch until an empty batch, no further polls",
		},
		CrashIsViolation: true,
	}
}

// pin describes the region pinned by one conjunct.
type pin struct {
	Kind string // keys | prefix | range | none(opaque) | unsat
	Keys []string
	Pre  string
	Lo   *string
	Hi   *string
}

func (p pin) contains(k string) bool {
	switch p.Kind {
	case "keys":
		for _, x := range p.Keys {
			if x == k {
				return true
			}
		}
		return false
	case "prefix":
		return strings.HasPrefix(k, p.Pre)
	case "range":
		return (p.Lo == nil || k >= *p.Lo) && (p.Hi == nil || k <= *p.Hi)
	}
	return true
}

func (p pin) before(k string) bool { // k lies before the region start
	switch p.Kind {
	case "prefix":
		return k < p.Pre
	case "range":
		return p.Lo != nil && k < *p.Lo
	}
	return false
}

// pinOf: the region pinned by an atom (nil for an opaque atom).
func pinOf(e *ref.Expr) *pin {
	sp := func(s string) *string { return &s }
	switch e.K {
	case "b":
		if !e.B {
			return &pin{Kind: "unsat"}
		}
	case "bin":
		if e.A[0].K == "key" && e.A[1].K == "s" {
			l := e.A[1].S
			switch e.Op {
			case "=":
				return &pin{Kind: "keys", Keys: []string{l}}
			case "^=":
				return &pin{Kind: "prefix", Pre: l}
			case ">", ">=":
				return &pin{Kind: "range", Lo: sp(l)}
			case "<", "<=":
				return &pin{Kind: "range", Hi: sp(l)}
			}
		}
	case "in":
		if e.A[0].K == "key" {
			p := &pin{Kind: "keys"}
			for _, a := range e.A[1:] {
				if a.K != "s" {
					return nil
				}
				p.Keys = append(p.Keys, a.S)
			}
			return p
		}
	case "btw":
		if e.A[0].K == "key" && e.A[1].K == "s" && e.A[2].K == "s" {
			return &pin{Kind: "range", Lo: sp(e.A[1].S), Hi: sp(e.A[2].S)}
		}
	}
	return nil
}

func c18PinAtoms() []*ref.Expr {
	k := ref.Key
	var out []*ref.Expr
	for _, l := range litsLc {
		out = append(out, ref.Bin("=", k(), ref.S(l)))
	}
	out = append(out, ref.In(k(), ref.S("a"), ref.S("b")), ref.In(k(), ref.S("ab")), ref.In(k(), ref.S("c"), ref.S("a")), ref.In(k(), ref.S("b"), ref.S("zz")))
	// lists naming a key twice (a repeated key is still one key)
	out = append(out, ref.In(k(), ref.S("a"), ref.S("a")), ref.In(k(), ref.S("c"), ref.S("a"), ref.S("c")), ref.In(k(), ref.S("b"), ref.S("ab"), ref.S("b"), ref.S("ab")))
	for _, l := range litsLc {
		if l != "" {
			out = append(out, ref.Bin("^=", k(), ref.S(l)))
		}
	}
	for _, op := range []string{">", ">=", "<", "<="} {
		for _, l := range litsLc {
			if l != "" {
				out = append(out, ref.Bin(op, k(), ref.S(l)))
			}
		}
	}
	out = append(out, betweenAtoms(k(), litsLc)...)
	return out
}

func c18Opaque() []*ref.Expr {
	return []*ref.Expr{
		ref.Bin("=", ref.Value(), ref.S("1")),
		ref.Bin("!=", ref.Value(), ref.S("zz")),
		ref.Call("is_int", ref.Value()),
	}
}

func c18Unsat() []*ref.Expr {
	k := ref.Key
	return []*ref.Expr{
		ref.Bl(false),
		ref.Bin("&", ref.Bin("=", k(), ref.S("a")), ref.Bin("=", k(), ref.S("b"))),
		ref.Bin("&", ref.In(k(), ref.S("a"), ref.S("ab")), ref.In(k(), ref.S("b"), ref.S("c"))),
		ref.Bin("&", ref.Bin("^=", k(), ref.S("a")), ref.Bin("^=", k(), ref.S("b"))),
		ref.Bin("&", ref.Bin("^=", k(), ref.S("ab")), ref.Bin("^=", k(), ref.S("b"))),
		ref.Bin("&", ref.Bin(">", k(), ref.S("b")), ref.Bin("<", k(), ref.S("a"))),
		ref.Bin("&", ref.Bin(">=", k(), ref.S("c")), ref.Bin("<=", k(), ref.S("ab"))),
		ref.Bin("&", ref.Btw(k(), ref.S("b"), ref.S("c")), ref.Btw(k(), ref.S(""), ref.S("a"))),
		ref.Bin("&", ref.Bin("=", k(), ref.S("a")), ref.Bin("^=", k(), ref.S("b"))),
		ref.Bin("&", ref.Bin("=", k(), ref.S("a")), ref.Bin(">", k(), ref.S("b"))),
		ref.Bin("&", ref.Bin("^=", k(), ref.S("a")), ref.Bin(">", k(), ref.S("b"))),
		ref.Bin("and", ref.Bin("=", k(), ref.S("a")), ref.Bin("=", k(), ref.S("b"))),
		ref.Bin("&", ref.Bl(false), ref.Bin("=", ref.Value(), ref.S("1"))),
	}
}

// disjointKeySets: two literal key sets without a common key ("disjoint
// equalities": the conjunction is unsatisfiable on its face).
func disjointKeySets(a, b *pin) bool {
	if a == nil || b == nil || a.Kind != "keys" || b.Kind != "keys" {
		return false
	}
	in := map[string]bool{}
	for _, k := range a.Keys {
		in[k] = true
	}
	for _, k := range b.Keys {
		if in[k] {
			return false
		}
	}
	return true
}

// disjointPins: two pins of one kind that exclude one another on their face -
// key sets without a common key, prefixes neither of which extends the other,
// ranges whose closed intervals do not meet.
func disjointPins(a, b *pin) bool {
	if a == nil || b == nil || a.Kind != b.Kind {
		return false
	}
	switch a.Kind {
	case "keys":
		return disjointKeySets(a, b)
	case "prefix":
		return !strings.HasPrefix(a.Pre, b.Pre) && !strings.HasPrefix(b.Pre, a.Pre)
	case "range":
		return a.Hi != nil && b.Lo != nil && *a.Hi < *b.Lo || b.Hi != nil && a.Lo != nil && *b.Hi < *a.Lo
	}
	return false
}

type c18Shape struct {
	pred  *ref.Expr
	pins  []*pin // one per pinning conjunct
	unsat bool
	edge  bool // judged over the stores of c18EdgeKeys
}

// keys around a prefix that ends in the byte 0xff: the first key behind the
// region of 'a\xff' is 'b', not 'b\xff'
var c18EdgeKeys = []string{"a", "a\xff", "a\xff1", "a\xff\xff", "b", "ba", "bb"}

func c18EdgeStore(mask int) []store.Pair {
	var ps []store.Pair
	for i, k := range c18EdgeKeys {
		if mask&(1<<i) != 0 {
			ps = append(ps, store.Pair{K: k, V: c01NumVals[i]})
		}
	}
	return ps
}

func c18EdgeAtoms() []*ref.Expr {
	k, s := ref.Key, ref.S
	return []*ref.Expr{
		ref.Bin("^=", k(), s("a\xff")), ref.Bin("^=", k(), s("a\xff\xff")), ref.Bin("^=", k(), s("\xff")), ref.Bin("^=", k(), s("a")), ref.Bin("^=", k(), s("b")),
		ref.Bin("=", k(), s("a\xff")), ref.In(k(), s("a\xff"), s("b")), ref.Bin(">", k(), s("a\xff")), ref.Bin("<=", k(), s("a\xff")), ref.Bin(">=", k(), s("a\xff\xff")),
		ref.Btw(k(), s("a\xff"), s("b")), ref.Btw(k(), s("a"), s("a\xff")), ref.Btw(k(), s("a\xff"), s("a\xff\xff")),
	}
}

var c18ShapesCache []c18Shape

func c18Shapes() []c18Shape {
	if c18ShapesCache != nil {
		return c18ShapesCache
	}
	var out []c18Shape
	atoms := c18PinAtoms()
	for _, a := range atoms {
		out = append(out, c18Shape{pred: a, pins: []*pin{pinOf(a)}})
	}
	for _, a := range atoms {
		for _, o := range c18Opaque() {
			out = append(out, c18Shape{pred: ref.Bin("&", a.Clone(), o.Clone()), pins: []*pin{pinOf(a)}})
			out = append(out, c18Shape{pred: ref.Bin("&", o.Clone(), a.Clone()), pins: []*pin{pinOf(a)}})
		}
		out = append(out, c18Shape{pred: ref.Bin("and", a.Clone(), c18Opaque()[0]), pins: []*pin{pinOf(a)}})
	}
	for _, a := range atoms {
		for _, b := range atoms {
			pa, pb := pinOf(a), pinOf(b)
			out = append(out, c18Shape{pred: ref.Bin("&", a.Clone(), b.Clone()), pins: []*pin{pa, pb}, unsat: disjointPins(pa, pb)})
		}
	}
	for _, u := range c18Unsat() {
		out = append(out, c18Shape{pred: u, unsat: true})
	}
	// an unsatisfiable conjunction stays unsatisfiable under a further pin, on either side
	k := ref.Key
	more := []*ref.Expr{ref.Bin(">", k(), ref.S("a")), ref.Bin("<=", k(), ref.S("c")), ref.Btw(k(), ref.S("a"), ref.S("c")), ref.Bin("^=", k(), ref.S("a")), ref.Bin("=", k(), ref.S("b")), ref.In(k(), ref.S("a"), ref.S("c"))}
	for _, u := range c18Unsat() {
		for _, m := range more {
			out = append(out, c18Shape{pred: ref.Bin("&", u.Clone(), m.Clone()), unsat: true})
			out = append(out, c18Shape{pred: ref.Bin("and", m.Clone(), u.Clone()), unsat: true})
		}
	}
	ea := c18EdgeAtoms()
	for _, a := range ea {
		out = append(out, c18Shape{pred: a, pins: []*pin{pinOf(a)}, edge: true})
		for _, o := range c18Opaque()[:2] {
			out = append(out, c18Shape{pred: ref.Bin("&", a.Clone(), o.Clone()), pins: []*pin{pinOf(a)}, edge: true})
			out = append(out, c18Shape{pred: ref.Bin("and", o.Clone(), a.Clone()), pins: []*pin{pinOf(a)}, edge: true})
		}
		for _, b := range ea {
			pa, pb := pinOf(a), pinOf(b)
			out = append(out, c18Shape{pred: ref.Bin("&", a.Clone(), b.Clone()), pins: []*pin{pa, pb}, unsat: disjointPins(pa, pb), edge: true})
		}
	}
	c18ShapesCache = out
	return out
}

const c18PerUnit = 16

func (c18) Units(t core.Tier) int { return (len(c18Shapes()) + c18PerUnit - 1) / c18PerUnit }

var c18Configs = []struct {
	mode string
	b    int
}{{drv.Row, 32}, {drv.Batch, 1}, {drv.Batch, 2}, {drv.Batch, 32}}

func (c18) RunUnit(t core.Tier, u int, r *core.Reporter) {
	shapes := c18Shapes()
	for i := u * c18PerUnit; i < (u+1)*c18PerUnit && i < len(shapes); i++ {
		sh := shapes[i]
		for mask := 0; mask < 128; mask++ {
			ps := subsetStore(mask, c01NumVals)
			if sh.edge {
				ps = c18EdgeStore(mask)
			}
			for _, cfg := range c18Configs {
				c := predCase{Pred: sh.pred, Store: ps, Mode: cfg.mode, B: cfg.b}
				if !r.Begin(func() *core.Failure {
					return &core.Failure{Property: "C18", Leg: "reads-within-pinned-region", Case: c.text(), Data: core.MustJSON(c)}
				}) {
					continue
				}
				f, nontrivial, obs := c18Judge(&c, sh)
				r.Evals(1)
				status := "ok"
				if f != nil {
					status = "violation:" + f.Sig
					r.Fail(*f)
				}
				r.Case(c.text(), nontrivial, status)
				r.Observed(obs)
			}
		}
	}
}

func c18Judge(c *predCase, sh c18Shape) (f *core.Failure, nontrivial bool, observed string) {
	st := store.New(c.Store)
	// (two more polls after the end of the result: a finished scan reads nothing further)
	out := drv.Run(c.query(), st, drv.Opt{Mode: c.Mode, B: c.B, ExtraPoll: 2})
	var logs []string
	for _, op := range st.Log {
		logs = append(logs, op.String())
	}
	observed = strings.Join(logs, " ")
	mk := func(sig, exp string) *core.Failure {
		return &core.Failure{Property: "C18", Leg: "reads-within-pinned-region", Sig: sig, Case: c.text(), Data: core.MustJSON(c), Expected: exp, Observed: "storage calls: " + observed}
	}
	if out.BuildErr != nil && out.Panic == "" {
		return nil, false, "rejected"
	}
	if out.Failed() {
		return mk(out.Status(), "the statement executes") /*observed has the log*/, false, observed
	}
	if sh.unsat {
		// "reads nothing at all": no point read and no cursor step (creating or
		// positioning a cursor that is never advanced reads no key)
		for _, op := range st.Log {
			if op.Kind != "Cursor" && op.Kind != "Seek" {
				return mk("reads-for-unsatisfiable-clause", "no read at all (no Get, no cursor step)"), true, observed
			}
		}
		return nil, len(c.Store) > 0, observed
	}
	// equality / IN conjunct => point reads only
	var keyPins []*pin
	for _, p := range sh.pins {
		if p.Kind == "keys" {
			keyPins = append(keyPins, p)
		}
	}
	var gets, nexts []string
	cursor := false
	for _, op := range st.Log {
		switch op.Kind {
		case "Get":
			gets = append(gets, op.Args[0])
		case "Cursor", "Seek":
			// (a cursor that is never advanced is no scan)
		case "Next":
			cursor = true
			if !op.EOF {
				nexts = append(nexts, op.Ret)
			}
		default:
			return mk("mutating-call", "reads only"), true, observed
		}
	}
	inStore := map[string]bool{}
	for _, p := range c.Store {
		inStore[p.K] = true
	}
	if len(keyPins) > 0 {
		if cursor {
			return mk("scan-instead-of-point-reads", "point reads (Get) of the pinned keys only, no cursor step"), true, observed
		}
		ok := false
		for _, p := range keyPins {
			all := true
			for _, g := range gets {
				if !p.contains(g) {
					all = false
				}
			}
			if all {
				ok = true
			}
		}
		if !ok {
			return mk("get-outside-pinned-keys", "Get only of keys pinned by one conjunct"), true, observed
		}
		out, in := false, false
		for k := range inStore {
			if keyPins[0].contains(k) {
				in = true
			} else {
				out = true
			}
		}
		return nil, in && out, observed
	}
	// prefix / range: reads inside the region of at least one conjunct
	if len(gets) > 0 && len(nexts) > 0 {
		return mk("mixed-gets-and-scan", "a single access path"), true, observed
	}
	okAny := false
	why := ""
	for _, p := range sh.pins {
		before, beyond := 0, 0
		for _, k := range append(append([]string(nil), nexts...), gets...) {
			if p.contains(k) {
				continue
			}
			if p.before(k) {
				before++
			} else {
				beyond++
			}
		}
		if before == 0 && beyond <= 1 {
			okAny = true
		} else {
			why += fmt.Sprintf("[region %s: %d keys read before its start, %d beyond its end] ", pinString(p), before, beyond)
		}
	}
	for _, p := range sh.pins {
		in, outside := false, false
		for k := range inStore {
			if p.contains(k) {
				in = true
			} else {
				outside = true
			}
		}
		if in && outside {
			nontrivial = true
		}
	}
	if !okAny {
		sig := "reads-outside-pinned-region"
		if strings.Contains(why, " 0 keys read before") && !strings.Contains(why, "1 keys read before") {
			sig = "more-than-one-key-beyond-region-end"
		}
		return mk(sig, "every key returned by the cursor lies in the region pinned by one conjunct, plus at most one key beyond its end: "+why), nontrivial, observed
	}
	return nil, nontrivial, observed
}

func pinString(p *pin) string {
	switch p.Kind {
	case "keys":
		ks := append([]string(nil), p.Keys...)
		sort.Strings(ks)
		return fmt.Sprintf("keys%q", ks)
	case "prefix":
		return fmt.Sprintf("prefix %q", p.Pre)
	case "range":
		lo, hi := "-inf", "+inf"
		if p.Lo != nil {
			lo = fmt.Sprintf("%q", *p.Lo)
		}
		if p.Hi != nil {
			hi = fmt.Sprintf("%q", *p.Hi)
		}
		return "[" + lo + "," + hi + "]"
	}
	return p.Kind
}

func c18ShapeOf(pred *ref.Expr) c18Shape {
	// recompute the shape from the predicate (replay / reduction)
	sh := c18Shape{pred: pred}
	var conj []*ref.Expr
	var split func(e *ref.Expr)
	split = func(e *ref.Expr) {
		if e.K == "bin" && (e.Op == "&" || strings.EqualFold(e.Op, "and")) {
			split(e.A[0])
			split(e.A[1])
			return
		}
		conj = append(conj, e)
	}
	split(pred)
	text := pred.Render()
	for _, u := range c18Unsat() {
		if u.Render() == text {
			sh.unsat = true
			return sh
		}
	}
	for _, e := range conj {
		if p := pinOf(e); p != nil {
			if p.Kind == "unsat" {
				sh.unsat = true
				return sh
			}
			sh.pins = append(sh.pins, p)
		}
	}
	for i := range sh.pins {
		for j := i + 1; j < len(sh.pins); j++ {
			if disjointPins(sh.pins[i], sh.pins[j]) {
				sh.unsat = true
			}
		}
	}
	// two conjuncts that form one of the listed unsatisfiable pairs
	norm := func(t string) string { return strings.ReplaceAll(t, " and ", " & ") }
	for i := range conj {
		for j := range conj {
			if i != j {
				pair := norm(ref.Bin("&", conj[i].Clone(), conj[j].Clone()).Render())
				for _, u := range c18Unsat() {
					if norm(u.Render()) == pair {
						sh.unsat = true
					}
				}
			}
		}
	}
	return sh
}

func (c18) Replay(data json.RawMessage) *core.Failure {
	var c predCase
	if err := json.Unmarshal(data, &c); err != nil || c.Pred == nil {
		return nil
	}
	sh := c18ShapeOf(c.Pred)
	if !sh.unsat && len(sh.pins) == 0 {
		return nil
	}
	f, _, _ := c18Judge(&c, sh)
	return f
}

func (c18) Simplify(data json.RawMessage) []json.RawMessage {
	var c predCase
	if err := json.Unmarshal(data, &c); err != nil || c.Pred == nil {
		return nil
	}
	var out []json.RawMessage
	for _, ps := range dropOnePair(c.Store) {
		d := c
		d.Store = ps
		out = append(out, core.MustJSON(d))
	}
	if c.Mode == drv.Batch && c.B > 1 {
		d := c
		d.B = 1
		out = append(out, core.MustJSON(d))
	}
	return out
}
