package checks

import (
	"encoding/json"
	"fmt"
	"sort"
	"strings"

	"verif/mc/core"
	"verif/mc/drv"
	"verif/mc/ref"
	"verif/mc/store"
)

// C05 — aliases are pure abbreviations and the field cache is invisible.

type c05Field struct {
	E  *ref.Expr `json:"e"`
	As string    `json:"as,omitempty"`
}

type c05Case struct {
	Fields []c05Field   `json:"fields"`
	Where  *ref.Expr    `json:"where"`
	Order  []string     `json:"order,omitempty"` // "name asc|desc"
	Group  []string     `json:"group,omitempty"`
	Limit  string       `json:"limit,omitempty"` // " limit s, n" appended to the statement
	Store  []store.Pair `json:"store"`
	Mode   string       `json:"mode"`
	B      int          `json:"b"`
}

func (c *c05Case) defs() map[string]*ref.Expr {
	m := map[string]*ref.Expr{}
	for _, f := range c.Fields {
		if _, dup := m[f.As]; f.As != "" && !dup {
			// a name refers to the first field that carries it
			m[f.As] = f.E
		}
	}
	return m
}

func (c *c05Case) query(expanded bool) string {
	defs := c.defs()
	var fs []string
	for _, f := range c.Fields {
		e := f.E
		if expanded {
			e = e.Subst(defs)
		}
		s := e.RenderStyle(ref.Style{Full: true})
		if f.As != "" {
			s += " as " + ref.QuoteName(f.As)
		}
		fs = append(fs, s)
	}
	w := c.Where
	if expanded {
		w = w.Subst(defs)
	}
	q := "select " + strings.Join(fs, ", ") + " where " + w.Render()
	if len(c.Group) > 0 {
		q += " group by " + strings.Join(c.Group, ", ")
	}
	if len(c.Order) > 0 {
		q += " order by " + strings.Join(c.Order, ", ")
	}
	return q + c.Limit
}

func (c *c05Case) text() string {
	return fmt.Sprintf("%s | mode=%s B=%d store=%s", c.query(false), c.Mode, c.B, store.CanonPairs(c.Store))
}

type c05 struct{}

func init() { core.Register(c05{}) }

func (c05) Info() core.Info {
	return core.Info{
		ID:    "C05",
		Title: "Aliases are pure abbreviations and the field cache is invisible",
		Level: "exploration",
		Rule: "queries = alias definition (int/float/upper/strlen/concat/split/is_int of key or value) x use (WHERE templates incl. arithmetic, OR of two uses, IN over a list alias, BETWEEN; inside function arguments incl. join/list/strlen/upper; in a later select field; ORDER BY; GROUP BY; two aliases with one defined through the other) x access path (full, prefix, range, point reads) on stores realising all 2^5 accept/reject patterns of the filter over 5 pairs plus a 70-pair store, row and batch at B in {1,2,3} (thorough: 5, 32). " +
			"Oracles: (1) aliased query == its alias-expanded text; (2) ExecuteCtx.EnableCache on == off; (3) one column per announced field name and column i == reference value of field i on that row's pair. Non-trivial: the filter rejects at least one scanned pair before a returned row. Distinct: (query, store, mode, B)." +
			" Also: the chain `def as a, a as y, y as z` with the three fields in all six orders (names used ahead of the fields they name).",
		Assumptions: []string{"alias expansion is done on the reference AST, textually independent of kvql", "reference values only where the reference evaluator is defined (DESIGN.md §3.2)"},
	}
}

// an alias scenario: definition, values that make the filter reject / accept
type c05Alias struct {
	name    string
	def     *ref.Expr
	lo, hi  string      // store values on which the where-templates reject / accept (value-based aliases)
	wheres  []*ref.Expr // templates over the alias; accept hi, reject lo
	argUses []*ref.Expr // boolean uses inside function arguments
	later   []*ref.Expr // later select fields using the alias
	ordable bool
	keyed   bool // filter depends on the key, not on the value
}

func c05Aliases() []c05Alias {
	nm := ref.Name
	s := ref.S
	return []c05Alias{
		{name: "n", def: ref.Call("int", ref.Value()), lo: "1", hi: "5", ordable: true,
			wheres: []*ref.Expr{ref.Bin(">", nm("n"), ref.N(2)), ref.Bin(">", ref.Bin("+", nm("n"), ref.N(1)), ref.N(3)),
				ref.Bin("|", ref.Bin("=", nm("n"), ref.N(5)), ref.Bin(">", nm("n"), ref.N(7))), ref.Btw(nm("n"), ref.N(3), ref.N(9)), ref.In(nm("n"), ref.N(5), ref.N(6)),
				ref.Bin(">", ref.Bin("*", nm("n"), nm("n")), ref.N(4))},
			argUses: []*ref.Expr{ref.Bin("=", ref.Call("str", nm("n")), s("5")), ref.Bin("^=", ref.Call("join", s("-"), nm("n"), ref.Key()), s("5-")),
				ref.Bin("=", ref.Idx(ref.Call("int_list", nm("n"), ref.N(0)), ref.N(0)), ref.N(5)), ref.Bin("=", ref.Idx(ref.Call("list", nm("n"), ref.N(0)), ref.N(0)), ref.N(5)),
				ref.Bin(">", ref.Call("float", nm("n")), ref.Fl(2.5))},
			later: []*ref.Expr{ref.Bin("+", nm("n"), ref.N(1)), ref.Call("str", nm("n")), ref.Call("join", s("-"), nm("n"), ref.Key()), ref.Bin(">", nm("n"), ref.N(2))}},
		{name: "f", def: ref.Call("float", ref.Value()), lo: "0.5", hi: "3.5", ordable: true,
			wheres:  []*ref.Expr{ref.Bin(">", nm("f"), ref.Fl(1.5)), ref.Bin(">=", ref.Bin("*", nm("f"), ref.N(2)), ref.N(7)), ref.Btw(nm("f"), ref.N(1), ref.N(4))},
			argUses: []*ref.Expr{ref.Bin("=", ref.Idx(ref.Call("float_list", nm("f"), ref.Fl(0.5)), ref.N(0)), ref.Fl(3.5))},
			later:   []*ref.Expr{ref.Bin("+", nm("f"), ref.Fl(0.5))}},
		{name: "l", def: ref.Call("strlen", ref.Value()), lo: "x", hi: "xxx", ordable: true,
			wheres:  []*ref.Expr{ref.Bin(">", nm("l"), ref.N(1)), ref.Btw(nm("l"), ref.N(2), ref.N(3)), ref.Bin("=", ref.Bin("-", nm("l"), ref.N(1)), ref.N(2))},
			argUses: []*ref.Expr{ref.Bin("=", ref.Call("str", nm("l")), s("3"))},
			later:   []*ref.Expr{ref.Bin("*", nm("l"), ref.N(2))}},
		{name: "c", def: ref.Bin("+", ref.Key(), ref.Value()), lo: "-", hi: "+", ordable: true,
			wheres:  []*ref.Expr{ref.Bin("~=", nm("c"), s("[+]$")), ref.Bin("!=", ref.Bin("+", nm("c"), s("!")), ref.Bin("+", ref.Bin("+", ref.Key(), s("-")), s("!")))},
			argUses: []*ref.Expr{ref.Bin("~=", ref.Call("upper", nm("c")), s("[+]$")), ref.Bin("=", ref.Call("strlen", nm("c")), ref.Call("strlen", ref.Bin("+", ref.Key(), s("+")))), ref.Bin("~=", ref.Call("join", s(""), nm("c"), nm("c")), s("[+]k[0-9][+]$"))},
			later:   []*ref.Expr{ref.Call("upper", nm("c")), ref.Call("strlen", nm("c"))}},
		{name: "s", def: ref.Call("split", ref.Value(), s(",")), lo: "c,d", hi: "a,b",
			wheres:  []*ref.Expr{ref.InX(s("a"), nm("s")), ref.Bin("|", ref.InX(s("b"), nm("s")), ref.InX(s("zz"), nm("s")))},
			argUses: []*ref.Expr{ref.Bin("=", ref.Idx(nm("s"), ref.N(0)), s("a")), ref.Bin("=", ref.Call("len", nm("s")), ref.N(2)), ref.Bin("=", ref.Call("join", s("+"), ref.Idx(nm("s"), ref.N(1)), ref.Idx(nm("s"), ref.N(0))), s("b+a"))},
			later:   []*ref.Expr{ref.Call("len", nm("s")), ref.Idx(nm("s"), ref.N(1))}},
		{name: "b", def: ref.Call("is_int", ref.Value()), lo: "q", hi: "7", ordable: true,
			wheres:  []*ref.Expr{ref.Bin("=", nm("b"), ref.Bl(true)), ref.Bin("!=", nm("b"), ref.Bl(false)), ref.Bin("&", nm("b"), ref.Bin("!=", ref.Value(), s("zz")))},
			argUses: nil,
			later:   []*ref.Expr{ref.Bin("=", nm("b"), ref.Bl(false))}},
		{name: "u", def: ref.Call("upper", ref.Key()), keyed: true, ordable: true,
			wheres:  []*ref.Expr{ref.Bin("|", ref.Bin("=", nm("u"), s("K2")), ref.Bin("=", nm("u"), s("K4"))), ref.In(nm("u"), s("K2"), s("K4"), s("K9")), ref.Bin("~=", nm("u"), s("[24]$"))},
			argUses: []*ref.Expr{ref.Bin("~=", ref.Call("lower", nm("u")), s("k[24]")), ref.Bin("=", ref.Call("strlen", ref.Bin("+", nm("u"), nm("u"))), ref.N(4))},
			later:   []*ref.Expr{ref.Call("lower", nm("u")), ref.Bin("+", nm("u"), s("!"))}},
	}
}

func c05Key(i int) string { return fmt.Sprintf("k%d", i+1) }

// path predicates over keys k1..k5 (and k01.. for the big store): none cuts anything off
var c05Paths = []struct {
	name string
	p    *ref.Expr
}{
	{"full", nil},
	{"prefix", ref.Bin("^=", ref.Key(), ref.S("k"))},
	{"range", ref.Bin(">", ref.Key(), ref.S("k0"))},
	{"mget", ref.In(ref.Key(), ref.S("k1"), ref.S("k2"), ref.S("k3"), ref.S("k4"), ref.S("k5"), ref.S("k9"))},
}

func c05Stores(a c05Alias, t core.Tier) [][]store.Pair {
	var out [][]store.Pair
	if a.keyed {
		for mask := 1; mask < 32; mask++ {
			var ps []store.Pair
			for i := 0; i < 5; i++ {
				if mask&(1<<i) != 0 {
					ps = append(ps, store.Pair{K: c05Key(i), V: "v"})
				}
			}
			out = append(out, ps)
		}
	} else {
		for mask := 0; mask < 32; mask++ {
			ps := make([]store.Pair, 5)
			for i := range ps {
				v := a.lo
				if mask&(1<<i) != 0 {
					v = a.hi
				}
				ps[i] = store.Pair{K: c05Key(i), V: v}
			}
			out = append(out, ps)
		}
	}
	// 70 pairs: accept every third
	big := make([]store.Pair, 70)
	for i := range big {
		v := a.lo
		if i%3 == 1 {
			v = a.hi
		}
		if a.keyed {
			v = "v"
		}
		big[i] = store.Pair{K: fmt.Sprintf("k%d%02d", 2+i%3, i), V: v}
	}
	out = append(out, big)
	return out
}

type c05Shape struct {
	fields []c05Field
	where  *ref.Expr
	order  []string
	group  []string
	alias  int
}

func c05Shapes(ai int, a c05Alias) []c05Shape {
	var out []c05Shape
	base := []c05Field{{ref.Key(), ""}, {a.def, a.name}}
	uses := append(append([]*ref.Expr(nil), a.wheres...), a.argUses...)
	for _, w := range uses {
		out = append(out, c05Shape{fields: base, where: w, alias: ai})
	}
	w0 := a.wheres[0]
	if !a.keyed {
		// a non-alias conjunct on the LEFT that rejects the same rows: whole
		// filter chunks can be decided before the alias is ever evaluated
		for _, w := range uses {
			out = append(out, c05Shape{fields: base, where: ref.Bin("&", ref.Bin("!=", ref.Value(), ref.S(a.lo)), w.Clone()), alias: ai})
		}
		out = append(out, c05Shape{fields: base, where: ref.Bin("|", ref.Bin("=", ref.Value(), ref.S(a.hi)), w0.Clone()), alias: ai})
	}
	for _, l := range a.later {
		out = append(out, c05Shape{fields: append(append([]c05Field(nil), base...), c05Field{l, "z"}), where: w0, alias: ai})
		out = append(out, c05Shape{fields: append(append([]c05Field(nil), base...), c05Field{l, ""}), where: ref.Bl(true), alias: ai})
	}
	// a later field that is nothing but the name
	out = append(out, c05Shape{fields: append(append([]c05Field(nil), base...), c05Field{ref.Name(a.name), "z"}), where: w0, alias: ai})
	out = append(out, c05Shape{fields: append(append([]c05Field(nil), base...), c05Field{ref.Name(a.name), ""}), where: ref.Bl(true), alias: ai})
	out = append(out, c05Shape{fields: []c05Field{{a.def, a.name}, {ref.Name(a.name), "y"}, {ref.Name("y"), "z"}}, where: ref.Bl(true), alias: ai})
	// ... the same chain of names with the three fields in every order (a name
	// used ahead of the field it names, which is itself a name used ahead)
	chain := []c05Field{{a.def, a.name}, {ref.Name(a.name), "y"}, {ref.Name("y"), "z"}}
	for _, pm := range [][3]int{{0, 2, 1}, {1, 0, 2}, {1, 2, 0}, {2, 0, 1}, {2, 1, 0}} {
		out = append(out, c05Shape{fields: []c05Field{chain[pm[0]], chain[pm[1]], chain[pm[2]]}, where: ref.Bl(true), alias: ai})
		out = append(out, c05Shape{fields: []c05Field{{ref.Key(), ""}, chain[pm[0]], chain[pm[1]], chain[pm[2]]}, where: w0, alias: ai})
	}
	// alias before key, value after
	out = append(out, c05Shape{fields: []c05Field{{a.def, a.name}, {ref.Key(), ""}, {ref.Value(), ""}}, where: w0, alias: ai})
	if a.ordable {
		out = append(out, c05Shape{fields: base, where: w0, order: []string{a.name + " desc", "KEY asc"}, alias: ai})
		out = append(out, c05Shape{fields: base, where: ref.Bl(true), order: []string{a.name + " asc", "KEY desc"}, alias: ai})
	}
	if a.ordable {
		// ordered by a later field defined through the alias (its type, and so
		// the way it is compared, is that of the expanded expression)
		for _, l := range a.later {
			f3 := append(append([]c05Field(nil), base...), c05Field{l, "z"})
			out = append(out, c05Shape{fields: f3, where: ref.Bl(true), order: []string{"z asc", "KEY desc"}, alias: ai})
			out = append(out, c05Shape{fields: f3, where: w0, order: []string{"z desc", "KEY asc"}, alias: ai})
		}
	}
	// a later field carrying the same name: the name keeps referring to the
	// first one and the later column still shows its own expression
	for _, w := range uses {
		out = append(out, c05Shape{fields: []c05Field{{ref.Key(), ""}, {a.def, a.name}, {ref.Value(), a.name}, {ref.Call("upper", ref.Key()), a.name}}, where: w, alias: ai})
	}
	if a.ordable {
		out = append(out, c05Shape{fields: []c05Field{{a.def, a.name}, {ref.Key(), a.name}}, where: ref.Bl(true), order: []string{a.name + " desc"}, alias: ai})
	}
	// ... and a field behind the repeated name that uses it
	for _, l := range a.later {
		out = append(out, c05Shape{fields: []c05Field{{a.def, a.name}, {ref.Call("upper", ref.Key()), a.name}, {l, "z"}}, where: ref.Bl(true), alias: ai})
		out = append(out, c05Shape{fields: []c05Field{{ref.Key(), ""}, {a.def, a.name}, {ref.Value(), a.name}, {l, "z"}}, where: w0, alias: ai})
	}
	// second alias defined through the first
	if len(a.later) > 0 {
		m := a.later[0]
		out = append(out, c05Shape{fields: []c05Field{{ref.Key(), ""}, {a.def, a.name}, {m, "m"}}, where: ref.Bin("&", w0, ref.Bin("=", ref.Name("m"), ref.Name("m"))), alias: ai})
	}
	return out
}

func c05AggrShapes(ai int, a c05Alias) []c05Shape {
	if !a.ordable {
		return nil
	}
	cnt := c05Field{ref.Call("count", ref.N(1)), "cnt"}
	var extra []c05Shape
	switch a.name {
	case "n", "f", "l":
		nm := ref.Name(a.name)
		extra = []c05Shape{
			// a grouped field defined through the alias that the aggregate argument also reads
			{fields: []c05Field{{a.def, a.name}, {ref.Bin("*", nm.Clone(), ref.N(2)), "m"}, {ref.Call("sum", nm.Clone()), "sm"}}, where: ref.Bl(true), group: []string{a.name, "m"}, alias: ai},
			{fields: []c05Field{{a.def, a.name}, {ref.Bin("+", nm.Clone(), ref.N(1)), "m"}, {ref.Call("max", nm.Clone()), "mx"}, cnt}, where: a.wheres[0], group: []string{"m", a.name}, alias: ai},
			// a field that reads the alias of an aggregate of the same row
			{fields: []c05Field{{ref.Call("substr", ref.Key(), ref.N(0), ref.N(2)), "p"}, cnt, {ref.Bin("/", ref.Call("sum", a.def), ref.Name("cnt")), "q"}}, where: ref.Bl(true), group: []string{"p"}, alias: ai},
			{fields: []c05Field{{a.def, a.name}, cnt, {ref.Bin("+", ref.Name("cnt"), ref.Name("cnt")), "q"}}, where: ref.Bl(true), group: []string{a.name}, alias: ai},
			{fields: []c05Field{{a.def, a.name}, {ref.Call("sum", nm), "sm"}}, where: ref.Bl(true), group: []string{a.name}, alias: ai},
			{fields: []c05Field{{a.def, a.name}, {ref.Call("max", ref.Bin("+", nm.Clone(), ref.N(1))), "mx"}, cnt}, where: a.wheres[0], group: []string{a.name}, alias: ai},
			{fields: []c05Field{{ref.Call("substr", ref.Key(), ref.N(0), ref.N(1)), "p"}, {ref.Call("sum", a.def), "sm"}}, where: ref.Bl(true), group: []string{"p"}, alias: ai},
		}
	case "c", "u":
		nm := ref.Name(a.name)
		extra = []c05Shape{
			{fields: []c05Field{{a.def, a.name}, {ref.Call("lower", nm.Clone()), "m"}, {ref.Call("group_concat", nm.Clone(), ref.S(",")), "gc"}}, where: ref.Bl(true), group: []string{a.name, "m"}, alias: ai},
			{fields: []c05Field{{a.def, a.name}, cnt, {ref.Bin("*", ref.Name("cnt"), ref.N(2)), "q"}}, where: ref.Bl(true), group: []string{a.name}, alias: ai},
			{fields: []c05Field{{a.def, a.name}, {ref.Call("group_concat", ref.Call("lower", nm), ref.S(",")), "gc"}}, where: ref.Bl(true), group: []string{a.name}, alias: ai},
			{fields: []c05Field{{a.def, a.name}, {ref.Call("sum", ref.Call("strlen", nm)), "sl"}}, where: a.wheres[0], group: []string{a.name}, alias: ai},
		}
	}
	return append(extra, []c05Shape{
		{fields: []c05Field{{a.def, a.name}, cnt}, where: ref.Bl(true), group: []string{a.name}, alias: ai},
		{fields: []c05Field{{a.def, a.name}, cnt}, where: a.wheres[0], group: []string{a.name}, alias: ai},
		{fields: []c05Field{{a.def, a.name}, {ref.Call("group_concat", ref.Key(), ref.S(",")), "ks"}}, where: ref.Bl(true), group: []string{a.name}, order: []string{a.name + " desc"}, alias: ai},
	}...)
}

type c05Unit struct {
	alias int
	part  int // 0: plain shapes, 1: aggregate shapes
}

func c05Units(t core.Tier) []c05Unit {
	var us []c05Unit
	for i := range c05Aliases() {
		us = append(us, c05Unit{i, 0}, c05Unit{i, 1})
	}
	return us
}

func (c05) Units(t core.Tier) int { return len(c05Units(t)) + 1 }

// c05Clash: two aliases whose names, glued to the first key of a chunk, can
// read the same ("a" + "bk1" = "ab" + "k1"; "a" - "b-k1" = "a-b" - "k1"): a
// per-chunk cache keyed by such a text must still keep them apart.
func c05Clash(r *core.Reporter) {
	iv := func() *ref.Expr { return ref.Call("int", ref.Value()) }
	for _, pr := range [][2]string{{"a", "ab"}, {"n", "n1"}, {"a", "a-b"}, {"x", "x-"}, {"k", "k-k"}, {"a", "a_"}} {
		short, long := pr[0], pr[1]
		diffs := []string{long[len(short):]}
		if strings.HasPrefix(long, short+"-") {
			diffs = append(diffs, long[len(short)+1:]+"-")
		}
		for _, d := range diffs {
			ps := []store.Pair{{K: d + "k1", V: "5"}, {K: d + "k2", V: "-1"}, {K: "k1", V: "7"}, {K: "k2", V: "8"}}
			for _, fields := range [][]c05Field{
				{{ref.Key(), ""}, {iv(), short}, {ref.Bin("*", iv(), ref.N(10)), long}},
				{{ref.Key(), ""}, {ref.Bin("*", iv(), ref.N(10)), long}, {iv(), short}},
			} {
				for _, w := range []*ref.Expr{
					ref.Bin("&", ref.Bin(">", ref.Name(short), ref.N(0)), ref.Bin(">", ref.Name(long), ref.N(10))),
					ref.Bin("&", ref.Bin(">", ref.Name(long), ref.N(10)), ref.Bin(">", ref.Name(short), ref.N(0))),
					ref.Bin("&", ref.Bin(">=", ref.Name(short), ref.N(0)), ref.Bin(">=", ref.Name(long), ref.N(0))),
				} {
					for _, cfg := range []struct {
						mode string
						b    int
					}{{drv.Row, 32}, {drv.Batch, 1}, {drv.Batch, 2}, {drv.Batch, 3}, {drv.Batch, 32}} {
						// a LIMIT window (with and without rows skipped, ending inside and beyond the rows) leaves every column the value of its field on its row's pair
						for _, lim := range []string{"", " limit 1, 2", " limit 2, 100", " limit 0, 1"} {
							c := c05Case{Fields: fields, Where: w, Limit: lim, Store: ps, Mode: cfg.mode, B: cfg.b}
							if !r.Begin(func() *core.Failure {
								return &core.Failure{Property: "C05", Leg: "alias", Case: c.text(), Data: core.MustJSON(c)}
							}) {
								continue
							}
							fs, nontrivial, status, obs, evals := c05Judge(&c)
							r.Evals(evals)
							for _, f := range fs {
								status = "violation:" + f.Sig
								r.Fail(f)
							}
							r.Case(c.text(), nontrivial, status)
							r.Observed(obs)
						}
					}
				}
			}
		}
	}
}

func (c05) RunUnit(t core.Tier, u int, r *core.Reporter) {
	if u == len(c05Units(t)) {
		c05Clash(r)
		return
	}
	un := c05Units(t)[u]
	a := c05Aliases()[un.alias]
	shapes := c05Shapes(un.alias, a)
	if un.part == 1 {
		shapes = c05AggrShapes(un.alias, a)
	}
	bs := []int{1, 2, 3}
	if t == core.Thorough {
		bs = []int{1, 2, 3, 5, 32}
	}
	stores := c05Stores(a, t)
	for _, sh := range shapes {
		for _, path := range c05Paths {
			w := sh.where
			if path.p != nil {
				w = ref.Bin("&", path.p.Clone(), sh.where.Clone())
			}
			for si, ps := range stores {
				big := si == len(stores)-1
				if big && path.name == "mget" {
					continue
				}
				cfgs := []struct {
					mode string
					b    int
				}{{drv.Row, 32}}
				for _, b := range bs {
					cfgs = append(cfgs, struct {
						mode string
						b    int
					}{drv.Batch, b})
				}
				if big {
					cfgs = append(cfgs, struct {
						mode string
						b    int
					}{drv.Batch, 32})
				}
				for _, cfg := range cfgs {
					c := c05Case{Fields: sh.fields, Where: w, Order: sh.order, Group: sh.group, Store: ps, Mode: cfg.mode, B: cfg.b}
					if !r.Begin(func() *core.Failure {
						return &core.Failure{Property: "C05", Leg: "alias", Case: c.text(), Data: core.MustJSON(c)}
					}) {
						continue
					}
					fs, nontrivial, status, obs, evals := c05Judge(&c)
					r.Evals(evals)
					for _, f := range fs {
						status = "violation:" + f.Sig
						r.Fail(f)
					}
					r.Case(c.text(), nontrivial, status)
					r.Observed(obs)
				}
			}
		}
	}
}

func c05Judge(c *c05Case) (fails []core.Failure, nontrivial bool, status, observed string, evals int) {
	mk := func(leg, sig, exp, obs string) core.Failure {
		return core.Failure{Property: "C05", Leg: leg, Sig: sig, Case: c.text(), Data: core.MustJSON(c), Expected: exp, Observed: obs}
	}
	run := func(q string, cache int) *drv.Outcome {
		st := store.New(c.Store)
		st.NoLog = true
		evals++
		return drv.Run(q, st, drv.Opt{Mode: c.Mode, B: c.B, Cache: cache, KeepRaw: true})
	}
	qa, qe := c.query(false), c.query(true)
	al := run(qa, 0)
	if al.BuildErr != nil && al.Panic == "" {
		return nil, false, "rejected", "rejected", evals
	}
	ex := run(qe, 0)
	if ex.BuildErr != nil && ex.Panic == "" {
		return nil, false, "expanded-rejected", "rejected", evals
	}
	status = "ok"
	observed = al.Status() + strings.Join(al.Rows, ";")
	if al.Panic != "" || ex.Panic != "" {
		// an error value may come from either form; a panic is never a result
		fails = append(fails, mk("aliased-vs-expanded", "panic", "rows or an error value", "aliased: "+al.Describe()+" ; expanded: "+ex.Describe()))
		return fails, true, "", observed, evals
	}
	// (1) aliased == expanded
	switch {
	case al.Failed() && !ex.Failed():
		fails = append(fails, mk("aliased-vs-expanded", "aliased-fails", "as the expanded query "+qe+": "+ex.Describe(), al.Describe()))
	case !al.Failed() && ex.Failed():
		// the expanded text fails where the abbreviation does not: not the
		// alias mechanism's fault; judged by C03/C06
		status = "expanded-fails"
	case !al.Failed() && !ex.Failed():
		// an order list that ends with the key is a total order: the sequences must be the same
		total := len(c.Order) > 0 && len(c.Group) == 0 && strings.HasPrefix(c.Order[len(c.Order)-1], "KEY")
		if !c05SameRows(al.Rows, ex.Rows, (len(c.Order) > 0 || len(c.Group) > 0) && !total) {
			fails = append(fails, mk("aliased-vs-expanded", rowDiffSig(al.Rows, ex.Rows), "rows of the expanded query "+qe+": "+ex.Describe(), al.Describe()))
		}
	default:
		status = "both-fail"
	}
	// (2) cache on == off
	on, off := run(qa, 1), run(qa, 2)
	if on.Panic != "" || off.Panic != "" {
		fails = append(fails, mk("cache-on-vs-off", "panic", "rows or an error value", "cache on: "+on.Describe()+" ; cache off: "+off.Describe()))
	} else if on.Status() != off.Status() || !drv.EqualRows(on.Rows, off.Rows) {
		if !(on.Failed() && off.Failed()) {
			fails = append(fails, mk("cache-on-vs-off", "cache-visible:"+on.Status()+"/"+off.Status(), "cache off: "+off.Describe(), "cache on: "+on.Describe()))
		}
	}
	// (3) columns vs announced fields vs reference
	if !al.Failed() {
		names := al.Fields
		defs := c.defs()
		byKey := map[string]store.Pair{}
		for _, p := range c.Store {
			byKey[p.K] = p
		}
		keyCol := -1
		for i, f := range c.Fields {
			if f.E.K == "key" {
				keyCol = i
			}
		}
		for ri, row := range al.Raw {
			if len(row) != len(names) || len(names) != len(c.Fields) {
				fails = append(fails, mk("columns-vs-fields", "column-count", fmt.Sprintf("%d columns (announced %v)", len(names), names), fmt.Sprintf("row %d has %d columns: %s", ri, len(row), al.Rows[ri])))
				break
			}
			if keyCol < 0 || len(c.Group) > 0 {
				continue
			}
			kb, ok := row[keyCol].([]byte)
			if !ok {
				continue
			}
			p, ok := byKey[string(kb)]
			if !ok {
				fails = append(fails, mk("columns-vs-fields", "unknown-key", "a stored key", al.Rows[ri]))
				break
			}
			bad := false
			for i, f := range c.Fields {
				v, err := ref.Eval(f.E, &ref.Env{Key: p.K, Value: p.V, Alias: defs})
				if err != nil {
					continue
				}
				if got := ref.Canon(row[i]); got != v.Canon() {
					fails = append(fails, mk("columns-vs-fields", "wrong-column-value", fmt.Sprintf("column %d (%s) of the row for key %q = %s", i, names[i], p.K, v.Canon()), got+" in row "+al.Rows[ri]))
					bad = true
					break
				}
			}
			if bad {
				break
			}
		}
		// non-trivial: some scanned pair is rejected before a returned row
		if len(al.Rows) > 0 && len(al.Rows) < len(c.Store) {
			nontrivial = true
		}
	}
	return fails, nontrivial, status, observed, evals
}

func c05SameRows(a, b []string, unordered bool) bool {
	if !unordered {
		return drv.EqualRows(a, b)
	}
	// ORDER BY / GROUP BY: same sequence, or same multiset when ties / group
	// order may legitimately differ? Both queries run the same plan shape, so
	// the sequence must be identical except inside ties; compare multisets and
	// lengths (sortedness itself is C07's subject).
	x, y := append([]string(nil), a...), append([]string(nil), b...)
	sort.Strings(x)
	sort.Strings(y)
	return drv.EqualRows(x, y)
}

func (c05) Replay(data json.RawMessage) *core.Failure {
	var c c05Case
	if err := json.Unmarshal(data, &c); err != nil || c.Where == nil {
		return nil
	}
	fs, _, _, _, _ := c05Judge(&c)
	if len(fs) == 0 {
		return nil
	}
	return &fs[0]
}

func (c05) Simplify(data json.RawMessage) []json.RawMessage {
	var c c05Case
	if err := json.Unmarshal(data, &c); err != nil || c.Where == nil {
		return nil
	}
	var out []json.RawMessage
	for _, w := range boolSimplifications(c.Where) {
		d := c
		d.Where = w
		out = append(out, core.MustJSON(d))
	}
	for _, ps := range dropOnePair(c.Store) {
		d := c
		d.Store = ps
		out = append(out, core.MustJSON(d))
	}
	if len(c.Order) > 0 {
		d := c
		d.Order = nil
		out = append(out, core.MustJSON(d))
	}
	if c.Mode == drv.Batch && c.B > 1 {
		d := c
		d.B = 1
		out = append(out, core.MustJSON(d))
	}
	return out
}
