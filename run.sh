#!/bin/sh
# usage: ./run.sh <Cxx> <quick|thorough>
# Rebuilds the explorer against /repo's current working tree (the module
# replaces github.com/c4pt0r/kvql by /repo) and runs one check.
set -u
cd "$(dirname "$0")" || exit 2
V=$(pwd)
export GOFLAGS=-mod=mod GOPROXY=off GOSUMDB=off GOTOOLCHAIN=local
export GOCACHE="$V/.gocache" VERIF_DIR="${VERIF_DIR_OVERRIDE:-$V}"
ID=${1:?property id}
TIER=${2:-${VERIF_TIER:-quick}}
mkdir -p "$V/.build" "$V/evidence"
LOCK="$V/.build/build.lock"
# The checks always build against /repo. VERIF_REPO=<dir> (used only by
# tools/seed_matrix.sh to try seeded changes in scratch worktrees without
# touching /repo) builds against another tree through an alternate go.mod.
REPO=${VERIF_REPO:-/repo}
MODFLAG=""
if [ "$REPO" != "/repo" ]; then
  ALT="$V/.build/alt.$$.mod"
  sed "s#=> /repo#=> $REPO#" "$V/mc/go.mod" > "$ALT"
  cp "$V/mc/go.sum" "$V/.build/alt.$$.sum" 2>/dev/null
  MODFLAG="-modfile=$ALT"
  OUTBIN="$V/.build/kvqlmc.alt.$$"
else
  OUTBIN="$V/.build/kvqlmc"
fi
(
  flock 9
  [ "$REPO" = "/repo" ] && cp /repo/go.sum "$V/mc/go.sum" 2>/dev/null
  cd "$V/mc" && go build $MODFLAG -o "$OUTBIN" ./cmd/kvqlmc
) 9>"$LOCK"
rc=$?
if [ $rc -ne 0 ]; then
  echo "HARNESS-ERROR: build of the explorer against /repo failed (exit $rc)"
  exit 2
fi
# each run uses a private copy of the binary so that concurrent rebuilds do not disturb it
BIN="$V/.build/kvqlmc.$$"
cp "$OUTBIN" "$BIN" || exit 2
[ "$REPO" = "/repo" ] || rm -f "$OUTBIN"
RACEBIN=""
if [ "$ID" = "C19" ]; then
  # C19: instrument the current /repo sources into a build overlay (package-level
  # variable accesses become scheduling points + conflict-monitor records) and
  # build the race-detector binary of the supporting free-running pass.
  IDIR="$V/.build/instr.$$"
  rm -rf "$IDIR"
  if "$BIN" instr "$REPO" "$IDIR" > "$IDIR.log" 2>&1 && \
     (cd "$V/mc" && go build $MODFLAG -tags verifinstr -overlay "$IDIR/overlay.json" -o "$BIN.instr" ./cmd/kvqlmc) >> "$IDIR.log" 2>&1; then
    cat "$IDIR.log"
    mv "$BIN.instr" "$BIN"
  else
    echo "NOTE: instrumented build failed; C19 falls back to storage-call granularity (instrumentation: fallback)"
    tail -5 "$IDIR.log"
  fi
  RACEBIN="$V/.build/racepass.$$"
  if ! (cd "$V/mc" && go build $MODFLAG -race -o "$RACEBIN" ./cmd/racepass) > "$IDIR.race.log" 2>&1; then
    echo "NOTE: race-detector build failed; supporting pass skipped"
    tail -3 "$IDIR.race.log"
    RACEBIN=""
  fi
  rm -rf "$IDIR" "$IDIR.log" "$IDIR.race.log"
fi
# if the library itself uses synchronisation, an unsynchronised-looking access
# pair may be ordered: the conflict monitor then only notes, the race pass decides
USESSYNC=0
if ls "$REPO"/*.go 2>/dev/null | grep -v _test.go | xargs grep -l '"sync\(/atomic\)\?"' >/dev/null 2>&1; then USESSYNC=1; fi
VERIF_C19_SYNC="$USESSYNC" VERIF_RACE_BIN="$RACEBIN" "$BIN" check "$ID" --tier "$TIER"
rc=$?
rm -f "$BIN" "$RACEBIN" "$V/.build/alt.$$.mod" "$V/.build/alt.$$.sum"
exit $rc
