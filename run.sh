#!/bin/sh
# usage: ./run.sh <Cxx> <quick|thorough>
# Rebuilds the explorer against /repo's current working tree (the module
# replaces github.com/c4pt0r/kvql by /repo) and runs one check.
set -u
cd "$(dirname "$0")" || exit 2
V=$(pwd)
export GOFLAGS=-mod=mod GOPROXY=off GOSUMDB=off GOTOOLCHAIN=local
export GOCACHE="$V/.gocache" VERIF_DIR="$V"
ID=${1:?property id}
TIER=${2:-${VERIF_TIER:-quick}}
mkdir -p "$V/.build" "$V/evidence"
LOCK="$V/.build/build.lock"
(
  flock 9
  cp /repo/go.sum "$V/mc/go.sum" 2>/dev/null
  cd "$V/mc" && go build -o "$V/.build/kvqlmc" ./cmd/kvqlmc
) 9>"$LOCK"
rc=$?
if [ $rc -ne 0 ]; then
  echo "HARNESS-ERROR: build of the explorer against /repo failed (exit $rc)"
  exit 2
fi
# each run uses a private copy of the binary so that concurrent rebuilds do not disturb it
BIN="$V/.build/kvqlmc.$$"
cp "$V/.build/kvqlmc" "$BIN" || exit 2
"$BIN" check "$ID" --tier "$TIER"
rc=$?
rm -f "$BIN"
exit $rc
