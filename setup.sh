#!/bin/sh
# Offline build of the explorer (warms /verif/.gocache).
set -eu
cd "$(dirname "$0")"
V=$(pwd)
export GOFLAGS=-mod=mod GOPROXY=off GOSUMDB=off GOTOOLCHAIN=local
export GOCACHE="$V/.gocache"
mkdir -p "$V/.build" "$V/evidence"
cp /repo/go.sum "$V/mc/go.sum"
cd "$V/mc"
go build -o "$V/.build/kvqlmc" ./cmd/kvqlmc
go vet ./... >/dev/null 2>&1 || true
echo "setup ok: $("$V/.build/kvqlmc" list | tr '\n' ' ')"
