#!/bin/sh
# runs every seeded change against every quick check (scratch worktrees only)
V=$(cd "$(dirname "$0")/.." && pwd)
for d in "$V"/seeded/*/; do
  id=$(basename "$d")
  echo "=== $id"
  "$V/tools/seed_matrix.sh" "$id" "$@"
done
