#!/bin/sh
# usage: tools/seed_matrix_targets.sh
# Every seeded change against the quick check of its own property.
V=$(cd "$(dirname "$0")/.." && pwd)
for d in "$V"/seeded/C*; do
  id=$(basename "$d")
  prop=${id%%-*}
  echo "=== $id"
  if grep -q '"retired"' "$d/meta.json" 2>/dev/null; then echo "retired (see meta.json)"; continue; fi
  "$V/tools/seed_matrix.sh" "$id" "$prop" | tail -1
done
