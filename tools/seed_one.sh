#!/bin/sh
# usage: tools/seed_one.sh <round-letter> <Cxx>
# collect + verify the seeded change of /tmp/wt/<Cxx>-<round>, then run it against its own quick check.
V=$(cd "$(dirname "$0")/.." && pwd)
r=$1; c=$2
"$V/tools/seed_collect.sh" /tmp/wt/$c-$r $c-$r $c > /tmp/wt/collect-$c-$r.log 2>&1
grep -E '"(builds_with_patch|existing_tests_with_patch|demo_with_patch|demo_without_patch)"' "$V/seeded/$c-$r/meta.json" | tr -d ' \n'; echo
"$V/tools/seed_matrix.sh" $c-$r $c | tail -1
