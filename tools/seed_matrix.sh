#!/bin/sh
# usage: tools/seed_matrix.sh <seed-id> [checks...]
# Tries a seeded change in a scratch worktree (never touches /repo): applies
# seeded/<id>/patch.diff there, runs the quick checks against it with separate
# evidence/replay dirs, and writes seeded/<id>/detect.txt.
set -u
ID=$1; shift
V=$(cd "$(dirname "$0")/.." && pwd)
CHECKS="$*"
[ -n "$CHECKS" ] || CHECKS="C01 C02 C03 C04 C05 C06 C07 C08 C09 C10 C11 C12 C13 C14 C15 C16 C17 C18 C19"
S=/tmp/wt/matrix-$ID-$$
rm -rf "$S"; git -C /repo worktree prune
git -C /repo worktree add -q --detach "$S" HEAD || exit 2
(cd "$S" && { git apply "$V/${SEEDROOT:-seeded}/$ID/patch.diff" 2>/dev/null || { git apply --3way "$V/${SEEDROOT:-seeded}/$ID/patch.diff" >/dev/null 2>&1 && git reset -q && ! grep -rl '^<<<<<<< ' --include='*.go' . >/dev/null; }; }) || { echo "patch does not apply" | tee "$V/${SEEDROOT:-seeded}/$ID/detect.txt"; git -C /repo worktree remove --force "$S"; exit 2; }
W=/tmp/wt/matrix-$ID-$$.verif
rm -rf "$W"; mkdir -p "$W/evidence"
cp "$V/known_findings.json" "$W/"
OUT="$V/${SEEDROOT:-seeded}/$ID/detect.txt"
: > "$OUT"
for c in $CHECKS; do
  VERIF_REPO="$S" VERIF_DIR_OVERRIDE="$W" "$V/run.sh" "$c" quick > "$W/$c.log" 2>&1
  rc=$?
  n=$(grep -c '^VIOLATION' "$W/$c.log")
  first=$(grep -A3 '^VIOLATION' "$W/$c.log" | grep 'case:' | head -1 | cut -c1-220)
  echo "$c exit=$rc violations=$n $first" | tee -a "$OUT"
done
git -C /repo worktree remove --force "$S"
rm -rf "$W"
