#!/bin/sh
# usage: tools/seed_collect.sh <worktree> <seed-id> <property>
# Takes the uncommitted change of a scratch worktree, verifies it (compiles,
# existing tests pass with it, the demonstration fails with it and passes
# without it) and stores it as /verif/seeded/<seed-id>/.
set -u
WT=$1; ID=$2; PROP=$3
V=/verif
export GOFLAGS=-mod=mod GOPROXY=off GOSUMDB=off GOTOOLCHAIN=local GOCACHE=$V/.gocache
D=$V/seeded/$ID
mkdir -p "$D"
cd "$WT" || exit 2
git diff -- . ':(exclude)seeded_demo_test.go' ':(exclude)SEEDED_NOTE.md' > "$D/patch.diff"
[ -s "$D/patch.diff" ] || { echo "EMPTY PATCH"; exit 1; }
cp seeded_demo_test.go "$D/seeded_demo_test.go" 2>/dev/null || { echo "NO DEMO"; }
cp SEEDED_NOTE.md "$D/NOTE.md" 2>/dev/null
# verify in a fresh scratch worktree of /repo HEAD
S=/tmp/wt/verify-$ID
git -C /repo worktree add -q --detach "$S" HEAD || exit 2
cd "$S"
res_build=fail; res_tests=fail; res_demo_with=unknown; res_demo_without=unknown
if git apply "$D/patch.diff"; then
  go build ./... >/dev/null 2>&1 && res_build=ok
  go test -vet=off -count=1 ./... >/dev/null 2>&1 && res_tests=pass
  if [ -f "$D/seeded_demo_test.go" ]; then
    cp "$D/seeded_demo_test.go" .
    RACE=""; grep -q "race" "$D/NOTE.md" 2>/dev/null && RACE="-race"
    if go test $RACE -vet=off -count=1 -run TestSeededDemo ./... >/dev/null 2>&1; then res_demo_with=pass; else res_demo_with=fail; fi
    git checkout -q -- . 2>/dev/null
    if go test $RACE -vet=off -count=1 -run TestSeededDemo ./... >/dev/null 2>&1; then res_demo_without=pass; else res_demo_without=fail; fi
  fi
else
  echo "PATCH DOES NOT APPLY"
fi
cd /; git -C /repo worktree remove --force "$S"
cat > "$D/meta.json" <<EOM
{
 "id": "$ID",
 "property": "$PROP",
 "patch": "patch.diff",
 "demonstration": "seeded_demo_test.go",
 "verified": {
  "builds_with_patch": "$res_build",
  "existing_tests_with_patch": "$res_tests",
  "demo_with_patch": "$res_demo_with",
  "demo_without_patch": "$res_demo_without"
 },
 "what_ran": "git apply patch.diff in a scratch worktree of /repo HEAD; go build ./...; go test -vet=off -count=1 ./...; go test -run TestSeededDemo with and without the patch"
}
EOM
cat "$D/meta.json"
