#!/bin/sh
# usage: tools/seed_run.sh <seed-id> [checks...]   (default: all 19)
# Applies a seeded change to /repo, runs the quick checks, reverts, and prints
# which checks reported a violation.
set -u
ID=$1; shift
V=/verif
CHECKS="$*"
[ -n "$CHECKS" ] || CHECKS="C01 C02 C03 C04 C05 C06 C07 C08 C09 C10 C11 C12 C13 C14 C15 C16 C17 C18 C19"
cd /repo || exit 2
[ -z "$(git status --porcelain)" ] || { echo "/repo not clean"; exit 2; }
git apply "$V/seeded/$ID/patch.diff" || { echo "patch does not apply"; exit 2; }
OUT="$V/seeded/$ID/detect.txt"
: > "$OUT"
for c in $CHECKS; do
  VERIF_DIR=$V "$V/run.sh" "$c" quick > "/tmp/seedrun.$$.log" 2>&1
  rc=$?
  n=$(grep -c '^VIOLATION' "/tmp/seedrun.$$.log")
  first=$(grep -A3 '^VIOLATION' "/tmp/seedrun.$$.log" | grep 'case:' | head -1 | cut -c1-200)
  echo "$c exit=$rc violations=$n $first" | tee -a "$OUT"
done
rm -f "/tmp/seedrun.$$.log"
git -C /repo checkout -- .
git -C /repo status --porcelain
# evidence files were rewritten by runs against a modified tree: restore the committed ones
git -C "$V" checkout -- evidence 2>/dev/null
rm -rf "$V/replays"
