#!/usr/bin/env python3
"""Rewrites the block between <!-- numbers:begin --> and <!-- numbers:end --> in
DESIGN.md with a table of what the last quick run of every check covered, read
from /verif/evidence/*.json (so that the numbers quoted in the design are the
ones the machinery reported, not remembered ones)."""
import json, glob, os, re
V = os.path.dirname(os.path.dirname(os.path.abspath(__file__)))
rows = []
for f in sorted(glob.glob(os.path.join(V, "evidence", "C*.json"))):
    e = json.load(open(f)); c = e["coverage"]
    extra = []
    for k in ("states", "transitions", "schedules", "faults_injected"):
        v = (c.get("counters") or {}).get(k) if isinstance(c.get("counters"), dict) else None
        if v: extra.append(f"{k}={v}")
    rows.append(f"| {e['property_id']} | {e.get('tier','')} | {c.get('cases')} | {c.get('distinct_nontrivial')} | {c.get('evaluations')} | {c.get('distinct_observed_results')} | {c.get('exhaustive')} | {round(float(e.get('wall_s') or 0),1)} |")
tbl = "| check | tier | cases | non-trivial | evaluations | distinct outcomes | exhaustive | wall s |\n|---|---|---|---|---|---|---|---|\n" + "\n".join(rows)
p = os.path.join(V, "DESIGN.md"); s = open(p).read()
s = re.sub(r"<!-- numbers:begin -->.*?<!-- numbers:end -->", "<!-- numbers:begin -->\n" + tbl + "\n<!-- numbers:end -->", s, flags=re.S)
open(p, "w").write(s)
print(tbl)
