#!/usr/bin/env python3
"""Enriches seeded/<id>/meta.json with `needs_to_manifest` (from NOTE.md) and
`detected_by` (from detect.txt)."""
import json, os, re, sys
V = os.path.dirname(os.path.dirname(os.path.abspath(__file__)))
for d in sorted(os.listdir(os.path.join(V, "seeded"))):
    p = os.path.join(V, "seeded", d)
    mp = os.path.join(p, "meta.json")
    if not os.path.exists(mp):
        continue
    m = json.load(open(mp))
    note = ""
    if os.path.exists(os.path.join(p, "NOTE.md")):
        note = open(os.path.join(p, "NOTE.md")).read()
    sec = ""
    mt = re.search(r"(?im)^#+.*(needs|manifest).*$", note)
    if mt:
        rest = note[mt.end():]
        nxt = re.search(r"(?m)^#+ ", rest)
        sec = rest[:nxt.start()] if nxt else rest
    m["needs_to_manifest"] = " ".join(sec.split())[:900]
    det = []
    dp = os.path.join(p, "detect.txt")
    if os.path.exists(dp):
        for l in open(dp):
            parts = l.split()
            if len(parts) >= 3 and parts[1] == "exit=1":
                det.append(parts[0])
    m["detected_by_quick_checks"] = det
    json.dump(m, open(mp, "w"), indent=1)
    print(d, det)
