#!/usr/bin/env python3
"""usage: tools/seed_briefs.py <round-letter> <outdir>
Writes one brief per property (<outdir>/prop<round>_<Cxx>.txt) for the sub-agents
that seed property-breaking changes: the property's text and anchors from
properties.jsonl, the ideas already used in earlier rounds (the `change` /
`needs` columns of the DESIGN.md §8 tables) and a per-round focus area taken
from FOCUS below (edit it for a new round). The agents also get tools/seed_task.md."""
import json, re, sys
rnd, out = sys.argv[1], sys.argv[2]
props = {}
for l in open('/verif/properties.jsonl'):
    d = json.loads(l); props[d['id']] = d
used = {}
for l in open('/verif/DESIGN.md'):
    m = re.match(r'\| (C\d\d)-([a-z]) \| (.*?) \| (.*?) \|', l)
    if m:
        used.setdefault(m.group(1), []).append(f"{m.group(3)} (manifests with: {m.group(4)})")
FOCUS = json.load(open('/verif/tools/seed_focus.json')).get(rnd, {})
for pid, d in props.items():
    mech = "\n".join(f"  - {m['name']}: {m['where']}" for m in d['anchors'].get('mechanism', []))
    u = "\n".join(f"  {i+1}. {x}" for i, x in enumerate(used.get(pid, [])))
    txt = f"""PROPERTY {pid}: {d['title']}

Statement: {d['statement']}

Quantified over: {d['quantifier']['text']}

Why the existing tests cannot settle it: {d['why_tests_cant']}

Code it is anchored in: {', '.join(d['anchors']['files'])}
Mechanisms:
{mech}

Ideas ALREADY USED for this property in earlier rounds (do not reuse these mechanisms or code sites; find something different):
{u}

Please look in: {FOCUS.get(pid, 'any part of the anchored code not touched by the ideas above')}.
"""
    open(f'{out}/prop{rnd}_{pid}.txt', 'w').write(txt)
print('wrote', len(props), 'briefs')
