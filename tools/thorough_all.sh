#!/bin/sh
# usage: tools/thorough_all.sh [checks...]
# Runs the thorough tier of every check against /repo with evidence / replays
# redirected to a scratch directory (the committed evidence stays the quick
# tier's), and prints one summary line per check.
V=$(cd "$(dirname "$0")/.." && pwd)
CHECKS="$*"
[ -n "$CHECKS" ] || CHECKS="C01 C02 C03 C04 C05 C08 C10 C11 C12 C13 C14 C17 C18 C09 C19 C15 C07 C16 C06"
W=$(mktemp -d /tmp/thorough.XXXXXX)
mkdir -p "$W/evidence"
cp "$V/known_findings.json" "$W/"
rc_all=0
for c in $CHECKS; do
  VERIF_DIR_OVERRIDE="$W" "$V/run.sh" "$c" thorough > "$W/$c.log" 2>&1
  rc=$?
  [ $rc -eq 0 ] || rc_all=1
  echo "$c rc=$rc $(grep -c '^VIOLATION' "$W/$c.log") violations, $(grep -c '^HARNESS-ERROR' "$W/$c.log") harness errors: $(tail -1 "$W/$c.log" | cut -c1-220)"
done
rm -rf "$W"
exit $rc_all
