#!/usr/bin/env python3
"""Regenerates /verif/MANIFEST.json from the table below (single source of truth)."""
import json, os, sys
V = os.path.dirname(os.path.dirname(os.path.abspath(__file__)))

# id -> (level, technique, level text, level note, design ref)
CHECKS = {
 "C03": ("exploration",
         "bounded-exhaustive differential exploration: every statement of the pools drained with Next and with Batch on equal stores at every batch size",
         "The two implementations (row Execute/Next, vector ExecuteBatch/Batch) are tied together on every statement of a product of pools (every scalar function, operator, indexing form, alias use, aggregate, ORDER BY, GROUP BY, LIMIT) over stores whose sizes straddle 0, 1, B-1, B, B+1, 2B, 2B+1, 3B+1 for each batch size; rows must agree position by position (multisets inside ORDER BY ties) and batch success implies row success.",
         "Relational oracle only (no reference values); batch-fails-only is allowed by the property.",
         "DESIGN.md §4 C03"),
 "C04": ("exploration",
         "bounded-exhaustive exploration of a typed expression grammar: each expression evaluated as parsed and after ExpressionOptimizer.Optimize(), plus the full query against the reference evaluator",
         "All well-typed trees over a constant/row-term pool to the stated depth are parsed twice; the un-optimised and the optimised copies are evaluated with Execute and ExecuteBatch on every pair and must agree in kind and value wherever the original evaluates; the end-to-end query is compared with the reference evaluation of the un-rewritten text.",
         "Exactly representable floats; integer division with inexact quotient judged by the folded-vs-unfolded leg only.",
         "DESIGN.md §4 C04"),
 "C05": ("exploration",
         "bounded-exhaustive exploration of alias definitions x uses x access paths over all 2^5 accept/reject patterns; aliased vs expanded text, cache on vs off, columns vs reference values",
         "For every alias scenario the filter's accept/reject pattern over the scanned pairs is enumerated completely (so every way a cached value of a rejected row could leak is exercised) in row mode and at several batch sizes; three oracles tie the result to the alias-expanded query, to the cache-disabled run and to the reference value of each announced field.",
         "Alias expansion done on the reference AST; reference values only inside the reference's domain.",
         "DESIGN.md §4 C05"),
 "C06": ("exploration",
         "exhaustive enumeration of all token strings up to length 5 (6), of all valid statements of the other checks' pools, of all single-token edits of a corpus and of parametrised long inputs, executed in isolated worker processes with a journal so that fatal runtime errors and hangs are attributed to the case",
         "Every input of three exhaustive families is parsed, planned, executed in both modes over eight adversarial stores and its errors are rendered; a panic, a dead worker process (stack overflow, out of memory) or a hang is a violation. Crash isolation makes non-recoverable aborts observable and attributable.",
         "Inputs up to 4 KB; arbitrary byte strings outside the enumerated families are not covered (coverage-guided mutation is another family).",
         "DESIGN.md §4 C06"),
 "C07": ("exploration",
         "bounded-exhaustive exploration of ORDER BY specifications over all small stores with ties and int/float mixes; permutation + adjacent-pair check with an independent comparator",
         "Every sequence of 1..2 (3) order fields with every direction combination over every store of up to 4 pairs from a universe with duplicates, ties and mixed numeric kinds (plus larger fixed stores and aggregate lists) is executed in both modes; the output must be a permutation of the unordered result and sorted under an independent comparator.",
         "Pairs of values of unrelated kinds are not compared.",
         "DESIGN.md §4 C07"),
 "C09": ("exploration",
         "bounded-exhaustive exploration of grouping-expression tuples x aggregate items over all stores of <= 4 pairs from universes built to make concatenated group values collide; independent fold as oracle",
         "Every choice of up to 2 (3) grouping expressions and every aggregate item is executed over every store of three small universes (text, integer, float valued) in row mode and at three batch sizes and compared with an independent fold over the reference rows: one row per distinct tuple in first-pair order, aggregates per their definitions in scan order.",
         "quantile excluded; group columns compared by content.",
         "DESIGN.md §4 C09"),
 "C10": ("exploration",
         "bounded-exhaustive exploration of function probes over a rotated argument pool, each as row-dependent field, as folded constant and as WHERE outcome, in both modes",
         "Each documented scalar function and indexing chain is applied to every (key, value) argument pair of a 6 x 12 text pool (and JSON documents), row-dependent, with the arguments substituted as constants (constant-folding path) and as a WHERE outcome, in row mode and three batch sizes, against an independent re-implementation from the README one-liners.",
         "substr and quantile outside the property's list; ASCII only for upper/lower.",
         "DESIGN.md §4 C10"),
 "C14": ("exploration",
         "bounded-exhaustive exploration of typed contexts x fillers: every well-typed filling must be accepted and execute without operand-type errors, every single-fault filling must be rejected with an empty storage call log",
         "Typed one-hole contexts (every syntactic position the property lists) composed to depth 2 (3) are filled with every well-typed filler and with every single fault (wrong-type operand, faulty atom, unknown function, wrong arity, forbidden keyword); acceptance, rejection before any storage call, and absence of operand-type errors at execution are checked for each.",
         "Only unambiguous typing faults are generated; dynamically typed [..] results excluded.",
         "DESIGN.md §4 C14"),
 "C15": ("exploration",
         "bounded-exhaustive exploration of all well-typed operator trees with <= 3 (4) binary operators in several renderings; parsed AST vs generating tree, print/re-parse fix-point, Explain filter vs executed filter",
         "Every typed tree over all operators up to the bound is rendered with minimal parentheses per the documented precedence table, fully parenthesised, with a redundant pair around each sub-tree in turn and in three letter cases; the parsed AST must equal the generating tree, its printed form must re-parse to it, and the filter text of Explain must re-parse to the filter the scan executes.",
         "Only well-typed trees are observable; folded constants without literal syntax (negative numbers) are not judged in the Explain leg.",
         "DESIGN.md §4 C15"),
 "C16": ("exploration",
         "exhaustive enumeration of all strings up to length 6 (7) over two 12-symbol alphabets and of all spacings of short token sequences, against an independent reference lexer",
         "All strings over the token-relevant symbol classes up to the bound are lexed and compared token by token (kind, text, offset) with a reference lexer written from the README; every token's text must be found at its offset; all optional-spacing variants of token sequences must give identical kind/text sequences.",
         "Only the space character is spacing; lone ^ / ~ judged on the per-token invariant only.",
         "DESIGN.md §4 C16"),
 "C17": ("exploration",
         "exhaustive single-token-edit neighbourhoods of a statement corpus (incl. long statements) x leading/trailing blanks x paddings; position validity and caret alignment of every rendered error",
         "Every single-token edit at every position of every corpus statement, with blanks and paddings varied, is planned and executed; every positional error must carry -1 or an offset inside the query (a token start for parse/check errors) and its rendering must show a stretch of the query containing the offset with the caret under it.",
         "Non-positional errors skipped.",
         "DESIGN.md §4 C17"),
 "C19": ("model_checking",
         "stateless model checking of the implementation: cooperative scheduler + depth-first exploration of ALL thread schedules up to a preemption bound (iterative context bounding), scheduling points at storage calls and at every package-level variable access instrumented at check time; conflict monitor; supporting free-running race-detector pass",
         "For 12 scenarios x 3 mode assignments of 2..3 concurrently parsed/planned/executed statements every interleaving with <= 2 (3) preemptions is executed on the real code; each thread's observable result must equal its solo run, final stores must equal a sequential run, and no package-level variable may be written by one statement and accessed by another. A free-running -race pass of the same bodies supports it.",
         "Thread-safe storage; granularity = storage calls and package-level variable accesses; the -race pass is sampled supporting evidence, not the deciding step.",
         "DESIGN.md §4 C19"),
 "C01": ("exploration",
         "bounded-exhaustive exploration of the real query pipeline against an independent reference evaluator",
         "Every predicate of depth <= 2 (thorough: 3) over a pool of ~190 atoms is executed end to end (parse, check, fold, scan choice, scan, filter, projection) on all 64 sub-stores of a 6-key universe (depth 1) or on fixed stores (deeper), row-at-a-time and in batches of 1,2,3,32, twice each, and compared row by row with a reference evaluator written from the README. Complete enumeration of the stated space, no sampling.",
         "Reference evaluator and its documented domain (DESIGN.md §3.2); Go regexp; repetition checked by running twice.",
         "DESIGN.md §4 C01"),
 "C02": ("exploration",
         "bounded-exhaustive exploration of predicate trees over a key universe proved adequate at run time; plan rows vs un-optimised filter, region containment, delete post-state",
         "All Boolean trees to depth 2 (thorough: 3) over every key-constraining atom shape with the literal on either side are planned and executed over a 155-key universe that the check proves realises every order/prefix relation to the literals, so agreement on it is agreement on every key; the chosen access path must contain every satisfying key and select/delete must equal a full scan filtered pair by pair.",
         "FilterExec.Filter of the un-optimised parse is the yardstick (its own semantics are C01's).",
         "DESIGN.md §4 C02"),
 "C11": ("model_checking",
         "explicit-state search: BFS over all 81 reachable store states, every delete transition executed on the real plan and compared with the reference map",
         "All reachable store states (breadth-first from the empty store, deduplicated by canonical contents) x every DELETE statement of the alphabet x limits x batch sizes x poll words are executed on the real code over a clone of the state; post-state, written pairs and storage traffic are compared with the model step. By induction on history length this covers every statement history over the alphabet.",
         "Storage with snapshot cursors and no hidden state; fresh plan per statement.",
         "DESIGN.md §4 C11"),
 "C12": ("model_checking",
         "explicit-state search over the same state space: every put/remove list of 1..3 elements (incl. failing elements at every position) under every poll word",
         "All reachable states x all PUT lists of 1..3 pair expressions and REMOVE lists of 1..3 keys from the pools (with evaluation failures at every position) x every poll word over {Next,Batch}; the mutating calls seen by the instrumented storage must carry exactly the stated writes once, nothing on failure or later polls, and follow-up point reads must observe them.",
         "Put vs BatchPut split not prescribed; integers only in written numbers.",
         "DESIGN.md §4 C12"),
 "C13": ("fault_enumeration",
         "single-fault enumeration: a sentinel storage error injected at every call index of the fault-free call sequence of every statement/store/mode",
         "For each statement (every kind and access path) on each store and mode the fault-free storage call sequence is recorded and then EVERY position is failed in turn; the error must surface as the sentinel from BuildPlan/Next/Batch with no later storage call. Fault-free runs also check read-only-ness of SELECT and of rejected statements.",
         "One fault per execution (a second is unreachable once the first surfaces).",
         "DESIGN.md §4 C13"),
 "C18": ("exploration",
         "bounded-exhaustive exploration of key-pinning shapes with the storage call log as the observation",
         "Every canonical pinning shape, alone, AND-ed with opaque predicates on either side and with a second pin, plus unsatisfiable shapes, over all literals and all 64 sub-stores in row mode and batches of 1,2,32: the storage traffic of a full drain must stay inside the region pinned by a conjunct (plus one key beyond its end), use point reads for =/IN and be empty for unsatisfiable clauses.",
         "Closed reading of half-open pins; standard drain protocol.",
         "DESIGN.md §4 C18"),
 "C08": ("exploration",
         "bounded-exhaustive grid exploration of the real LIMIT state machines against the unlimited run and a reference model",
         "Every (offset, count, result size, batch size, refill pattern) of a stated grid is executed on the real plans in both iteration modes for select / ordered / aggregate / delete and compared with the slice of the unlimited result; a coverage statement over the whole grid, not a sample.",
         "Storage contract of DESIGN.md §2; bounds as reported in evidence (B<=4 exhaustive, B=32 boundary cross).",
         "DESIGN.md §4 C08"),
}
NOT_BUILT_REASON = "check not built yet in this round (design in DESIGN.md §4); not claimed until its machinery exists"
ALL = ["C%02d" % i for i in range(1, 20)]

def main():
    checks = []
    for pid in ALL:
        if pid not in CHECKS:
            continue
        level, tech, text, note, ref = CHECKS[pid]
        checks.append({
            "property_id": pid,
            "quick_cmd": "./run.sh %s quick" % pid,
            "thorough_cmd": "./run.sh %s thorough" % pid,
            "evidence_file": "/verif/evidence/%s.json" % pid,
            "replay_cmd_template": "./.build/kvqlmc replay {path}",
            "engine": "kvqlmc",
            "level_claimed": {"category": level, "text": text, "design_ref": ref},
            "level_note": note,
            "technique": tech,
        })
    m = {
        "version": 1,
        "setup_cmd": "./setup.sh",
        "hooks": {
            "guard": "verif",
            "enable": "no in-repo hooks: the explorer is an external module (replace github.com/c4pt0r/kvql => /repo) that drives the exported API; C19 instrumentation is generated at check time into a `go build -overlay` (build tag `verif` is reserved and unused)",
            "baseline_off_cmd": "cd /repo && GOFLAGS=-mod=mod GOPROXY=off GOSUMDB=off GOTOOLCHAIN=local go test -vet=off -count=1 ./...",
            "source_commits": [],
            "add_only": True,
        },
        "engines": [{
            "name": "kvqlmc",
            "path": "/verif/mc",
            "serves_properties": [c["property_id"] for c in checks],
            "kind_free_text": "hand-written bounded-exhaustive explorer / explicit-state model checker in Go driving the real kvql library (16 isolated worker processes, journalled cases, reference model, fault and schedule enumeration)",
        }],
        "checks": checks,
        "not_applicable": [{"property_id": p, "reason": NOT_BUILT_REASON} for p in ALL if p not in CHECKS],
        "notes": "All checks: ./run.sh <Cxx> quick|thorough (rebuilds against /repo's working tree). Known findings: /verif/known_findings.json. Design: /verif/DESIGN.md.",
    }
    with open(os.path.join(V, "MANIFEST.json"), "w") as f:
        json.dump(m, f, indent=1)
        f.write("\n")
    try:
        import jsonschema
        jsonschema.validate(m, json.load(open("/root/.vp/MANIFEST.schema.json")))
        print("MANIFEST.json valid; claimed:", [c["property_id"] for c in checks])
    except ImportError:
        print("written (jsonschema not importable here)")

if __name__ == "__main__":
    main()
