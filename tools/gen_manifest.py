#!/usr/bin/env python3
"""Regenerates /verif/MANIFEST.json from the table below (single source of truth)."""
import json, os, sys
V = os.path.dirname(os.path.dirname(os.path.abspath(__file__)))

# id -> (level, technique, level text, level note, design ref)
CHECKS = {
 "C08": ("exploration",
         "bounded-exhaustive grid exploration of the real LIMIT state machines against the unlimited run and a reference model",
         "Every (offset, count, result size, batch size, refill pattern) of a stated grid is executed on the real plans in both iteration modes for select / ordered / aggregate / delete and compared with the slice of the unlimited result; a coverage statement over the whole grid, not a sample.",
         "Storage contract of DESIGN.md §2; bounds as reported in evidence (B<=4 exhaustive, B=32 boundary cross).",
         "DESIGN.md §4 C08"),
}
NOT_BUILT_REASON = "check not built yet in this round (design in DESIGN.md §4); not claimed until its machinery exists"
ALL = ["C%02d" % i for i in range(1, 20)]

def main():
    checks = []
    for pid in ALL:
        if pid not in CHECKS:
            continue
        level, tech, text, note, ref = CHECKS[pid]
        checks.append({
            "property_id": pid,
            "quick_cmd": "./run.sh %s quick" % pid,
            "thorough_cmd": "./run.sh %s thorough" % pid,
            "evidence_file": "/verif/evidence/%s.json" % pid,
            "replay_cmd_template": "./.build/kvqlmc replay {path}",
            "engine": "kvqlmc",
            "level_claimed": {"category": level, "text": text, "design_ref": ref},
            "level_note": note,
            "technique": tech,
        })
    m = {
        "version": 1,
        "setup_cmd": "./setup.sh",
        "hooks": {
            "guard": "verif",
            "enable": "no in-repo hooks: the explorer is an external module (replace github.com/c4pt0r/kvql => /repo) that drives the exported API; C19 instrumentation is generated at check time into a `go build -overlay` (build tag `verif` is reserved and unused)",
            "baseline_off_cmd": "cd /repo && GOFLAGS=-mod=mod GOPROXY=off GOSUMDB=off GOTOOLCHAIN=local go test -vet=off -count=1 ./...",
            "source_commits": [],
            "add_only": True,
        },
        "engines": [{
            "name": "kvqlmc",
            "path": "/verif/mc",
            "serves_properties": [c["property_id"] for c in checks],
            "kind_free_text": "hand-written bounded-exhaustive explorer / explicit-state model checker in Go driving the real kvql library (16 isolated worker processes, journalled cases, reference model, fault and schedule enumeration)",
        }],
        "checks": checks,
        "not_applicable": [{"property_id": p, "reason": NOT_BUILT_REASON} for p in ALL if p not in CHECKS],
        "notes": "All checks: ./run.sh <Cxx> quick|thorough (rebuilds against /repo's working tree). Known findings: /verif/known_findings.json. Design: /verif/DESIGN.md.",
    }
    with open(os.path.join(V, "MANIFEST.json"), "w") as f:
        json.dump(m, f, indent=1)
        f.write("\n")
    try:
        import jsonschema
        jsonschema.validate(m, json.load(open("/root/.vp/MANIFEST.schema.json")))
        print("MANIFEST.json valid; claimed:", [c["property_id"] for c in checks])
    except ImportError:
        print("written (jsonschema not importable here)")

if __name__ == "__main__":
    main()
