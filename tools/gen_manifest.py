#!/usr/bin/env python3
"""Regenerates /verif/MANIFEST.json from the table below (single source of truth)."""
import json, os, sys
V = os.path.dirname(os.path.dirname(os.path.abspath(__file__)))

# id -> (level, technique, level text, level note, design ref)
CHECKS = {
 "C01": ("exploration",
         "bounded-exhaustive exploration of the real query pipeline against an independent reference evaluator",
         "Every predicate of depth <= 2 (thorough: 3) over a pool of ~190 atoms is executed end to end (parse, check, fold, scan choice, scan, filter, projection) on all 64 sub-stores of a 6-key universe (depth 1) or on fixed stores (deeper), row-at-a-time and in batches of 1,2,3,32, twice each, and compared row by row with a reference evaluator written from the README. Complete enumeration of the stated space, no sampling.",
         "Reference evaluator and its documented domain (DESIGN.md §3.2); Go regexp; repetition checked by running twice.",
         "DESIGN.md §4 C01"),
 "C02": ("exploration",
         "bounded-exhaustive exploration of predicate trees over a key universe proved adequate at run time; plan rows vs un-optimised filter, region containment, delete post-state",
         "All Boolean trees to depth 2 (thorough: 3) over every key-constraining atom shape with the literal on either side are planned and executed over a 155-key universe that the check proves realises every order/prefix relation to the literals, so agreement on it is agreement on every key; the chosen access path must contain every satisfying key and select/delete must equal a full scan filtered pair by pair.",
         "FilterExec.Filter of the un-optimised parse is the yardstick (its own semantics are C01's).",
         "DESIGN.md §4 C02"),
 "C11": ("model_checking",
         "explicit-state search: BFS over all 81 reachable store states, every delete transition executed on the real plan and compared with the reference map",
         "All reachable store states (breadth-first from the empty store, deduplicated by canonical contents) x every DELETE statement of the alphabet x limits x batch sizes x poll words are executed on the real code over a clone of the state; post-state, written pairs and storage traffic are compared with the model step. By induction on history length this covers every statement history over the alphabet.",
         "Storage with snapshot cursors and no hidden state; fresh plan per statement.",
         "DESIGN.md §4 C11"),
 "C12": ("model_checking",
         "explicit-state search over the same state space: every put/remove list of 1..3 elements (incl. failing elements at every position) under every poll word",
         "All reachable states x all PUT lists of 1..3 pair expressions and REMOVE lists of 1..3 keys from the pools (with evaluation failures at every position) x every poll word over {Next,Batch}; the mutating calls seen by the instrumented storage must carry exactly the stated writes once, nothing on failure or later polls, and follow-up point reads must observe them.",
         "Put vs BatchPut split not prescribed; integers only in written numbers.",
         "DESIGN.md §4 C12"),
 "C13": ("fault_enumeration",
         "single-fault enumeration: a sentinel storage error injected at every call index of the fault-free call sequence of every statement/store/mode",
         "For each statement (every kind and access path) on each store and mode the fault-free storage call sequence is recorded and then EVERY position is failed in turn; the error must surface as the sentinel from BuildPlan/Next/Batch with no later storage call. Fault-free runs also check read-only-ness of SELECT and of rejected statements.",
         "One fault per execution (a second is unreachable once the first surfaces).",
         "DESIGN.md §4 C13"),
 "C18": ("exploration",
         "bounded-exhaustive exploration of key-pinning shapes with the storage call log as the observation",
         "Every canonical pinning shape, alone, AND-ed with opaque predicates on either side and with a second pin, plus unsatisfiable shapes, over all literals and all 64 sub-stores in row mode and batches of 1,2,32: the storage traffic of a full drain must stay inside the region pinned by a conjunct (plus one key beyond its end), use point reads for =/IN and be empty for unsatisfiable clauses.",
         "Closed reading of half-open pins; standard drain protocol.",
         "DESIGN.md §4 C18"),
 "C08": ("exploration",
         "bounded-exhaustive grid exploration of the real LIMIT state machines against the unlimited run and a reference model",
         "Every (offset, count, result size, batch size, refill pattern) of a stated grid is executed on the real plans in both iteration modes for select / ordered / aggregate / delete and compared with the slice of the unlimited result; a coverage statement over the whole grid, not a sample.",
         "Storage contract of DESIGN.md §2; bounds as reported in evidence (B<=4 exhaustive, B=32 boundary cross).",
         "DESIGN.md §4 C08"),
}
NOT_BUILT_REASON = "check not built yet in this round (design in DESIGN.md §4); not claimed until its machinery exists"
ALL = ["C%02d" % i for i in range(1, 20)]

def main():
    checks = []
    for pid in ALL:
        if pid not in CHECKS:
            continue
        level, tech, text, note, ref = CHECKS[pid]
        checks.append({
            "property_id": pid,
            "quick_cmd": "./run.sh %s quick" % pid,
            "thorough_cmd": "./run.sh %s thorough" % pid,
            "evidence_file": "/verif/evidence/%s.json" % pid,
            "replay_cmd_template": "./.build/kvqlmc replay {path}",
            "engine": "kvqlmc",
            "level_claimed": {"category": level, "text": text, "design_ref": ref},
            "level_note": note,
            "technique": tech,
        })
    m = {
        "version": 1,
        "setup_cmd": "./setup.sh",
        "hooks": {
            "guard": "verif",
            "enable": "no in-repo hooks: the explorer is an external module (replace github.com/c4pt0r/kvql => /repo) that drives the exported API; C19 instrumentation is generated at check time into a `go build -overlay` (build tag `verif` is reserved and unused)",
            "baseline_off_cmd": "cd /repo && GOFLAGS=-mod=mod GOPROXY=off GOSUMDB=off GOTOOLCHAIN=local go test -vet=off -count=1 ./...",
            "source_commits": [],
            "add_only": True,
        },
        "engines": [{
            "name": "kvqlmc",
            "path": "/verif/mc",
            "serves_properties": [c["property_id"] for c in checks],
            "kind_free_text": "hand-written bounded-exhaustive explorer / explicit-state model checker in Go driving the real kvql library (16 isolated worker processes, journalled cases, reference model, fault and schedule enumeration)",
        }],
        "checks": checks,
        "not_applicable": [{"property_id": p, "reason": NOT_BUILT_REASON} for p in ALL if p not in CHECKS],
        "notes": "All checks: ./run.sh <Cxx> quick|thorough (rebuilds against /repo's working tree). Known findings: /verif/known_findings.json. Design: /verif/DESIGN.md.",
    }
    with open(os.path.join(V, "MANIFEST.json"), "w") as f:
        json.dump(m, f, indent=1)
        f.write("\n")
    try:
        import jsonschema
        jsonschema.validate(m, json.load(open("/root/.vp/MANIFEST.schema.json")))
        print("MANIFEST.json valid; claimed:", [c["property_id"] for c in checks])
    except ImportError:
        print("written (jsonschema not importable here)")

if __name__ == "__main__":
    main()
