#!/bin/sh
# usage: tools/seed_bin.sh <seed-id>   -> prints the path of a kvqlmc binary built
# against a scratch worktree of /repo with seeded/<id>/patch.diff applied
# (for ad-hoc `kvqlmc run '<query>' 'k=v,..'` debugging). Remove with
# tools/seed_bin.sh -r <seed-id>.
set -u
V=$(cd "$(dirname "$0")/.." && pwd)
export GOFLAGS=-mod=mod GOPROXY=off GOSUMDB=off GOTOOLCHAIN=local GOCACHE=$V/.gocache
if [ "$1" = "-r" ]; then
  git -C /repo worktree remove --force /tmp/wt/bin-$2 2>/dev/null; rm -f /tmp/wt/bin-$2.kvqlmc /tmp/wt/bin-$2.mod /tmp/wt/bin-$2.sum; exit 0
fi
ID=$1
S=/tmp/wt/bin-$ID
git -C /repo worktree remove --force "$S" 2>/dev/null
git -C /repo worktree add -q --detach "$S" HEAD || exit 2
(cd "$S" && git apply "$V/seeded/$ID/patch.diff") || exit 2
sed "s#=> /repo#=> $S#" "$V/mc/go.mod" > "$S.mod"; cp "$V/mc/go.sum" "$S.sum"
(cd "$V/mc" && go build -modfile="$S.mod" -o "$S.kvqlmc" ./cmd/kvqlmc) || exit 2
echo "$S.kvqlmc"
