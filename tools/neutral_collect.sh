#!/bin/sh
# usage: tools/neutral_collect.sh <worktree> <id>
# Stores the uncommitted property-preserving change of a scratch worktree as
# /verif/neutral/<id>/ (patch.diff, NOTE.md, neutral_demo_test.go) after checking
# that it builds, that the existing tests pass with it and that its own
# demonstration passes with and without it.
set -u
WT=$1; ID=$2
V=/verif
export GOFLAGS=-mod=mod GOPROXY=off GOSUMDB=off GOTOOLCHAIN=local GOCACHE=$V/.gocache
D=$V/neutral/$ID
mkdir -p "$D"
cd "$WT" || exit 2
git diff -- . ':(exclude)neutral_demo_test.go' ':(exclude)NEUTRAL_NOTE.md' > "$D/patch.diff"
[ -s "$D/patch.diff" ] || { echo "EMPTY PATCH"; exit 1; }
cp neutral_demo_test.go "$D/" 2>/dev/null; cp NEUTRAL_NOTE.md "$D/NOTE.md" 2>/dev/null
S=/tmp/wt/verify-$ID
git -C /repo worktree add -q --detach "$S" HEAD || exit 2
cd "$S"
b=fail; t=fail; dw=unknown; dwo=unknown
if git apply "$D/patch.diff"; then
  go build ./... >/dev/null 2>&1 && b=ok
  go test -vet=off -count=1 ./... >/dev/null 2>&1 && t=pass
  if [ -f "$D/neutral_demo_test.go" ]; then
    cp "$D/neutral_demo_test.go" .
    if go test -vet=off -count=1 -run TestNeutralDemo ./... >/dev/null 2>&1; then dw=pass; else dw=fail; fi
    git checkout -q -- .
    if go test -vet=off -count=1 -run TestNeutralDemo ./... >/dev/null 2>&1; then dwo=pass; else dwo=fail; fi
  fi
else
  echo "PATCH DOES NOT APPLY"
fi
cd /; git -C /repo worktree remove --force "$S"
echo "$ID build=$b tests=$t demo_with=$dw demo_without=$dwo lines=$(grep -c '^[+-][^+-]' "$D/patch.diff")" | tee "$D/verify.txt"
